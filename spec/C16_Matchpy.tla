----------------------------- MODULE C16_Matchpy -----------------------------
(***************************************************************************)
(* C16, matchpy bridge: meaning (M-layer) of the instantiation law for     *)
(* patterns with dot / star wildcards, of the term conversion round trip,  *)
(* and the rewriting state machine (S-layer) against which a recorded      *)
(* replace_all history is validated step by step.                          *)
(*                                                                         *)
(* The bridge declares Sum, Product, LogicalOr/And, BitwiseOr/And/Xor      *)
(* associative and commutative, so terms are compared by NFM: bags with    *)
(* flattening for exactly those kinds, subscript indices as sequences.     *)
(*                                                                         *)
(* A substitution is a sequence of bindings [n, kind, items]:              *)
(*   kind = "expr"  dot wildcard, items = << the expression >>             *)
(*   kind = "seq"   star wildcard in an ordered operand list               *)
(*   kind = "bag"   star wildcard in a commutative operand list            *)
(* (items always a sequence of expressions, multiplicities written out).   *)
(***************************************************************************)
EXTENDS C16_Unify
CONSTANT BugM      \* "none", or a planted defect of the S-layer (negative control)

ACKindsM == ACKinds \cup {"BitOr", "BitXor", "BitAnd", "LogOr", "LogAnd"}
NFM(e) == NFg(e, FALSE, ACKindsM)

DotW(name)  == [t |-> "Wild", cls |-> "DotWildcard", name |-> name]
StarW(name) == [t |-> "Wild", cls |-> "StarWildcard", name |-> name]
IsStar(e) == e.t = "Wild" /\ e.cls = "StarWildcard"

CatSeqs(ss) == LET RECURSIVE Go(_, _)
                   Go(lo, hi) == IF lo > hi THEN << >>
                                 ELSE IF lo = hi THEN ss[lo]
                                 ELSE LET mid == (lo + hi) \div 2
                                      IN Go(lo, mid) \o Go(mid + 1, hi)
               IN Go(1, Len(ss))

RECURSIVE WildsOf(_), Bridgeable(_)
WildsOf(e) == IF e.t = "Wild" THEN {e}
              ELSE UNION {WildsOf(KidsW(e)[i]) : i \in 1..Len(KidsW(e))}
WildNames(e) == {w.name : w \in WildsOf(e)}
HasStar(e) == \E w \in WildsOf(e) : IsStar(w)

\* the node kinds the bridge converts (everything else is a documented refusal)
Bridgeable(e) ==
    CASE e.t = "Var" -> TRUE
      [] e.t = "Const" -> e.v.k \in {"int", "bool", "flt"}
      [] e.t = "Wild" -> TRUE
      [] e.t = "Sub" -> Bridgeable(e.a) /\ (IF e.b.t = "Tup"
                                            THEN \A i \in 1..Len(e.b.c) : Bridgeable(e.b.c[i])
                                            ELSE Bridgeable(e.b))
      [] e.t \in ACKindsM \cup (BinKinds \ {"Sub"}) \cup UnKinds \cup {"Cmp", "If", "Call"} ->
            \A i \in 1..Len(Kids(e)) : Bridgeable(Kids(e)[i])
      [] OTHER -> FALSE

--------------------------------------------------------------------------
\* instantiation of a wildcard pattern
SigNames(sg) == {sg[i].n : i \in 1..Len(sg)}
SigFun(sg) == [nm \in SigNames(sg) |-> sg[CHOOSE i \in 1..Len(sg) : sg[i].n = nm]]
SigWellFormed(p, sg) ==
    /\ \A i, j \in 1..Len(sg) : sg[i].n = sg[j].n => i = j
    /\ \A i \in 1..Len(sg) : sg[i].kind = "expr" => Len(sg[i].items) = 1

RECURSIVE InstW(_, _)
Splice(ks, s) ==
    CatSeqs([i \in 1..Len(ks) |->
        IF IsStar(ks[i]) /\ ks[i].name \in DOMAIN s THEN s[ks[i].name].items
        ELSE << InstW(ks[i], s) >>])
InstW(e, s) ==       \* s = SigFun(bindings)
    IF e.t = "Wild"
    THEN (IF e.name \in DOMAIN s /\ ~IsStar(e) /\ Len(s[e.name].items) = 1
          THEN s[e.name].items[1] ELSE e)
    ELSE IF e.t \in NaryKinds THEN [e EXCEPT !.c = Splice(e.c, s)]
    ELSE IF e.t = "Call" THEN [e EXCEPT !.f = InstW(e.f, s), !.c = Splice(e.c, s)]
    ELSE WithKidsW(e, [i \in 1..Len(KidsW(e)) |-> InstW(KidsW(e)[i], s)])

\* verdict for one reported substitution against the term it is claimed to match
SubstVerdict(p, sg, term) ==
    IF ~(SigNames(sg) \subseteq WildNames(p)) THEN "domain"
    ELSE IF ~SigWellFormed(p, sg) THEN "functional"
    ELSE IF NFM(InstW(p, SigFun(sg))) = NFM(term) THEN "OK" ELSE "inst"

--------------------------------------------------------------------------
(* S-layer: replace_all with ONE rule  lhs -> r(k), where the k-th call of *)
(* the replacement callback returns                                        *)
(*    mode "marker":  the fresh variable R<k>                              *)
(*    mode "wrap"  :  R<k> + q   (R<k> * q if the pattern is a sum, so     *)
(*                    that the rule cannot fire on its own output)         *)
(* Abstract state: the set of terms (normal forms) the expression may      *)
(* currently be; one action per call of the callback, labelled with the    *)
(* substitution the callback received:                                     *)
(*    Step(k, sg): enabled iff some current term contains the instantiated *)
(*                 left-hand side as a subterm; replaces ONE occurrence    *)
(*                 of it by r(k).                                          *)
(* The final result must be one of the current terms.                      *)
MarkerNames == << "R1", "R2", "R3", "R4", "R5", "R6", "R7", "R8", "R9", "R10", "R11", "R12" >>
MaxCalls == Len(MarkerNames)
Marker(k) == [t |-> "Var", name |-> MarkerNames[k]]
ReplTerm(lhs, k, mode) ==      \* as an expression (Expr.tla shape)
    IF mode = "marker" THEN V(MarkerNames[k])
    ELSE N(IF lhs.t = "Sum" THEN "Product" ELSE "Sum", << V(MarkerNames[k]), V("q") >>)

IsBagNF(x) == x.t \in ACKindsM \cup CKinds
PutBag(kind, rest, el) ==      \* put element el back into a bag node, flattening if needed
    [t |-> kind, bag |-> BagUnion(rest, IF el.t = kind /\ kind \in ACKindsM THEN el.bag
                                        ELSE BagOf1(el))]
RECURSIVE Replace1(_, _, _)
SeqRepl(x, u, r) ==       \* replace inside one element of the sequence field c
    UNION {{[x EXCEPT !.c = [x.c EXCEPT ![i] = y]] : y \in Replace1(x.c[i], u, r)}
             : i \in 1..Len(x.c)}
Replace1(x, u, r) ==
    IF BugM = "noreplace" THEN {x} ELSE
    (IF x = u THEN {r} ELSE {}) \cup
    CASE x.t \in {"Var", "Const", "Wild", "None"} -> {}
      [] IsBagNF(x) ->
            UNION {{PutBag(x.t, BagRemove1(x.bag, el), y) : y \in Replace1(el, u, r)}
                     : el \in DOMAIN x.bag}
      [] x.t \in {"Tup", "List", "Slice"} -> SeqRepl(x, u, r)
      [] x.t = "Sub" ->
            {[x EXCEPT !.a = y] : y \in Replace1(x.a, u, r)} \cup SeqRepl(x, u, r)
      [] x.t = "Call" ->
            {[x EXCEPT !.f = y] : y \in Replace1(x.f, u, r)} \cup SeqRepl(x, u, r)
      [] x.t \in (BinKinds \ {"Sub"}) \cup {"Cmp"} ->
            {[x EXCEPT !.a = y] : y \in Replace1(x.a, u, r)}
            \cup {[x EXCEPT !.b = y] : y \in Replace1(x.b, u, r)}
      [] x.t \in UnKinds \cup {"Look"} -> {[x EXCEPT !.a = y] : y \in Replace1(x.a, u, r)}
      [] x.t = "If" ->
            {[x EXCEPT !.i = y] : y \in Replace1(x.i, u, r)}
            \cup {[x EXCEPT !.th = y] : y \in Replace1(x.th, u, r)}
            \cup {[x EXCEPT !.el = y] : y \in Replace1(x.el, u, r)}

RwInit(s) == {NFM(s)}
RwStep(cur, lhs, sg, k, mode) ==
    UNION {Replace1(x, NFM(InstW(lhs, SigFun(sg))), NFM(ReplTerm(lhs, k, mode))) : x \in cur}
\* run a recorded history; stuck = index of the first call that is not enabled (0: none)
RwRun(s, lhs, calls, mode) ==
    LET RECURSIVE Go(_, _)
        Go(k, cur) == IF k > Len(calls) THEN [stuck |-> 0, cur |-> cur]
                      ELSE LET nx == RwStep(cur, lhs, calls[k], k, mode) IN
                           IF nx = {} THEN [stuck |-> k, cur |-> cur] ELSE Go(k + 1, nx)
    IN Go(1, RwInit(s))

ReplaceVerdict(s, lhs, calls, result, mode) ==
    IF Len(calls) > MaxCalls THEN "SKIP:too_many_calls"
    ELSE IF \E k \in 1..Len(calls) : ~(SigNames(calls[k]) \subseteq WildNames(lhs)) THEN "rep_domain"
    ELSE IF \E k \in 1..Len(calls) : ~SigWellFormed(lhs, calls[k]) THEN "rep_functional"
    ELSE LET run == RwRun(s, lhs, calls, mode) IN
         IF run.stuck # 0 THEN "rep_step"
         ELSE IF NFM(result) \in run.cur THEN "OK" ELSE "rep_result"

\* attribution feature: in every term the model allows, some replacement r(k) lies inside
\* (at any depth) an element of a call's argument list or of a subscript's index list, i.e.
\* putting it there means rebuilding that list
InArgList(x, r) == \E sb \in SubNFs(x) :
                      sb.t \in {"Call", "Sub"} /\ \E i \in 1..Len(sb.c) : r \in SubNFs(sb.c[i])
ReplacedInArgList(s, lhs, calls, mode) ==
    /\ Len(calls) \in 1..MaxCalls
    /\ LET run == RwRun(s, lhs, calls, mode) IN
       /\ run.stuck = 0
       /\ \A x \in run.cur : \E k \in 1..Len(calls) : InArgList(x, NFM(ReplTerm(lhs, k, mode)))
=============================================================================
