CONSTANTS
  PoolSel = "core"
  ArgSel = "core"
  MaxLen = 1
  KeyMode = "ideal"
  StoreMode = "nostore"
  HitMode = "identity"
  Random = FALSE
  FbMode = "faithful"
  ShareSel = "parity"
  RbMode = "faithful"
INIT Init
NEXT Next
INVARIANT NoComputedTwice
CHECK_DEADLOCK FALSE
