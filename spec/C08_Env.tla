------------------------------- MODULE C08_Env -------------------------------
(* The box of environments in which C08 compares values (generator and      *)
(* judge share it).  x, y, z pairwise different in every environment so     *)
(* that a swapped, chained or forgotten replacement changes the value;      *)
(* u is unbound everywhere (a replacement that mentions it must surface     *)
(* the unknown-variable error exactly where the replaced name is read).     *)
EXTENDS C08_SubstImpl

FnV(n) == [k |-> "fn", name |-> n]
ObjV(n) == [k |-> "obj", name |-> n]
TupV(s) == [k |-> "tup", items |-> s]
Envs == <<
  [x |-> IntV(2),      y |-> IntV(-3),    z |-> IntV(5),      b |-> BoolV(TRUE),
   t |-> TupV(<< IntV(10), IntV(20), FracV(5, 2) >>), o |-> ObjV("o1"),
   f |-> FnV("f"), g |-> FnV("g"), o2 |-> ObjV("o2")],
  [x |-> FracV(1, 2),  y |-> IntV(2),     z |-> IntV(-1),     b |-> BoolV(FALSE),
   t |-> TupV(<< IntV(7), IntV(-1), IntV(3) >>), o |-> ObjV("o1"),
   f |-> FnV("f"), g |-> FnV("g"), o2 |-> ObjV("o2")],
  [x |-> IntV(0),      y |-> IntV(1),     z |-> IntV(3),      b |-> BoolV(TRUE),
   t |-> TupV(<< IntV(1), IntV(0), IntV(2) >>), o |-> ObjV("o1"),
   f |-> FnV("g"), g |-> FnV("f"), o2 |-> ObjV("o2")],
  [x |-> IntV(1),      y |-> FltV(3, 2),  z |-> IntV(0),      b |-> BoolV(FALSE),
   t |-> TupV(<< IntV(4), FracV(2, 3), IntV(-2) >>), o |-> ObjV("o1"),
   f |-> FnV("f"), g |-> FnV("g"), o2 |-> ObjV("o2")]
>>
=============================================================================
