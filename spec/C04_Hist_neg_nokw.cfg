CONSTANTS
  KeyMode = "nokw"
  Tier = "quick"
  MaxCalls = 2
  Free = TRUE
  Bug = "none"
INIT Init
NEXT Next
INVARIANT EveryCallIsTheMeaning
INVARIANT ModelWalkAccepted
INVARIANT CacheCoherent
CHECK_DEADLOCK FALSE
