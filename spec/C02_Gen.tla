------------------------------- MODULE C02_Gen -------------------------------
(***************************************************************************)
(* Stage (1) for C02: TLC enumerates every tree of the bounded space       *)
(* (root kind x typed holes filled left to right from the pools below),    *)
(* checks on the model that the implementation-shaped evaluator            *)
(* (C02_EvalImpl) refines the meaning (Eval) in every environment of the   *)
(* box, and prints each complete tree as one JSON line for the driver.     *)
(***************************************************************************)
EXTENDS C02_Env, C02_EvalImpl, Json
CONSTANT Tier
VARIABLE tree

x == V("x")  y == V("y")  z == V("z")  bb == V("b")  uu == V("u")
ff == V("f") gg == V("g") tt == V("t") oo == V("o")

NumLeaves  == { x, y, z, KI(0), KI(1), KI(2), KI(-1), K(FltV(3, 2)), K(FltV(1, 1)), uu }
BoolLeaves == { bb, K(BoolV(TRUE)) }
Leaves == NumLeaves \cup BoolLeaves

\* depth-1 representatives: one or two per node kind, chosen to hit zero divisors,
\* negative shifts, non-callables, missing attributes, short-circuits
D1Quick == {
  N("Sum", << x, y >>), N("Product", << KI(2), x >>), B("Quotient", x, y),
  B("FloorDiv", x, y), B("Remainder", x, KI(2)), B("Power", x, KI(2)),
  B("LShift", x, KI(1)), U("BitNot", x), N("BitXor", << x, z >>),
  Cmp(x, "<", y), U("LogNot", bb), N("LogOr", << bb, Cmp(x, "==", z) >>),
  IfE(bb, x, y), N("Min", << x, y >>), Call(ff, << x >>),
  CallKw(gg, << x >>, << KwArg("k2", y) >>), B("Sub", tt, KI(1)), Look(oo, "p"),
  CSE0(N("Sum", << x, KI(2) >>)), N("Tup", << x, y >>), N("Tup", << KI(1) >>), V("m") }
D1More == {
  N("Sum", << x, KI(2), z >>), N("Product", << x, y >>), B("Quotient", x, KI(2)),
  B("Quotient", KI(2), z), B("FloorDiv", KI(-1), x), B("Remainder", x, y),
  B("Power", x, y), B("Power", KI(2), z), B("RShift", x, y), B("LShift", KI(2), z),
  N("BitOr", << x, y >>), N("BitAnd", << x, KI(-1) >>), Cmp(x, "==", z), Cmp(y, ">=", KI(0)),
  Cmp(x, "!=", y), N("LogAnd", << bb, Cmp(x, ">", z) >>), N("Max", << x, y, z >>),
  Call(gg, << x, y >>), Call(x, << y >>), CallKw(ff, << >>, << KwArg("k1", x), KwArg("k2", y) >>),
  B("Sub", tt, x), B("Sub", tt, KI(-1)), Look(oo, "q"), Look(oo, "zz"), Look(x, "p"),
  CSE(B("Quotient", x, z), "pre", "pymbolic_expr"), N("List", << x, KI(0) >>),
  IfE(Cmp(z, "==", KI(0)), KI(2), B("Quotient", x, z)) }
D1 == IF Tier = "quick" THEN D1Quick ELSE D1Quick \cup D1More

HoleT(ty) == [t |-> "Hole", ty |-> ty]
A == HoleT("any")  L == HoleT("leaf")  Cn == HoleT("cond")  F == HoleT("fn")
PoolFor(ty) ==
    CASE ty = "any"  -> Leaves \cup D1
      [] ty = "leaf" -> Leaves
      [] ty = "cond" -> BoolLeaves \cup { x, z, Cmp(x, "<", y), Cmp(x, "==", z),
                                          U("LogNot", bb), B("Quotient", x, z) }
      [] ty = "fn"   -> { ff, gg, x, uu }

RECURSIVE FirstHoleTy(_)
FirstHoleTy(e) ==
    IF e.t = "Hole" THEN e.ty
    ELSE LET ks == Kids(e)
             RECURSIVE Go(_)
             Go(i) == IF i > Len(ks) THEN "" ELSE
                      LET r == FirstHoleTy(ks[i]) IN IF r # "" THEN r ELSE Go(i + 1)
         IN Go(1)

BinRootKinds == {"Quotient", "FloorDiv", "Remainder", "Power", "LShift", "RShift", "Sub"}
NaryRootKinds == {"Sum", "Product", "BitOr", "BitXor", "BitAnd", "LogOr", "LogAnd",
                  "Min", "Max", "Tup", "List"}
Roots ==
       { B(k, A, A) : k \in BinRootKinds }
  \cup { Cmp(A, op, A) : op \in {"<", "=="} } \cup { Cmp(L, op, A) : op \in {"!=", "<=", ">", ">="} }
  \cup { N(k, << >>) : k \in NaryRootKinds } \cup { N(k, << A >>) : k \in NaryRootKinds }
  \cup { N(k, << A, A >>) : k \in NaryRootKinds } \cup { N(k, << L, A, L >>) : k \in NaryRootKinds }
  \cup { U(k, A) : k \in UnKinds }
  \cup { IfE(Cn, A, L), IfE(Cn, L, A) }
  \cup { Call(F, << >>), Call(F, << A >>), Call(F, << A, L >>), Call(F, << L, L, L >>),
         Call(ff, << L, L, L, L >>),
         CallKw(F, << A >>, << KwArg("k1", A) >>),
         CallKw(F, << >>, << KwArg("k2", A), KwArg("k1", L) >>),
         \* keywords spelt like names an implementation uses for its own parameters
         CallKw(F, << L >>, << KwArg("expr", A) >>), CallKw(F, << >>, << KwArg("self", A) >>),
         CallKw(F, << A >>, << KwArg("args", L), KwArg("kwargs", L) >>),
         CallKw(F, << >>, << KwArg("expression", A), KwArg("context", L) >>),
         CallKw(ff, << L >>, << KwArg("zz", L) >>) }
  \cup { Look(A, nm) : nm \in {"p", "q", "zz"} }
  \cup { CSE0(A), CSE(A, "pre", "pymbolic_global") }
  \cup Leaves \cup { ff, tt, oo }

Init == tree \in Roots
Next == /\ NHoles(tree) > 0
        /\ \E s \in PoolFor(FirstHoleTy(tree)) : tree' = FillFirst(tree, s)

Complete == NHoles(tree) = 0

\* A-layer refines M-layer on the model, in every environment of the box
ImplRefinesMeaning ==
    Complete => \A i \in 1..Len(Envs) :
        LET m == Eval(tree, Envs[i]) a == EvalImpl(tree, Envs[i]) IN
        IsUnrep(m) \/ IsUnrep(a) \/ JudgeVal(m, a, tree, Envs[i]) = "OK"

Emit == Complete => PrintT(ToJson([e |-> tree]))

ASSUME PrintT(ToJson([envs |-> Envs]))
\* sanity laws of the oracle itself over a box of numbers
BoxNums == { IntV(i) : i \in -5..5 } \cup { FracV(1, 2), FracV(-3, 2), FracV(2, 3), FltV(3, 2), FltV(-1, 4) }
ASSUME \A a, b \in BoxNums : DivModLaw(a, b) /\ ModSignLaw(a, b)
ASSUME \A a \in BoxNums, k \in { IntV(i) : i \in 0..4 } : ShiftLaw(a, k)
ASSUME \A a, b \in { IntV(i) : i \in -5..5 } \cup { BoolV(TRUE), BoolV(FALSE) } :
          DeMorganLaw(a, b) /\ XorLaw(a, b)
=============================================================================
