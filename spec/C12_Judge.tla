------------------------------ MODULE C12_Judge ------------------------------
(***************************************************************************)
(* Stage (3) for C12, tagging and helper records.  Every record the driver *)
(* wrote is judged by TLC with the operators of C12_CSE; one printed line  *)
(* per record that is not plainly OK.                                      *)
(*                                                                         *)
(* tag record  [id, kind, ins, shs, runs, obs]: the list was built once per *)
(*   object-sharing layout shs[i] (shs[1] = no sharing) and tagged; obs are *)
(*   the DISTINCT observations [r, outs, nodes, evs, vals, fcalls, houts,   *)
(*   hvals], runs[i] the index of the observation of layout i.  EVERY       *)
(*   observation is judged by the same clauses (no clause looks at the      *)
(*   layout: the statement's claims do not depend on how the caller shared  *)
(*   his objects); a failure that the unshared list does not show carries   *)
(*   the class of the first layout that shows it.  Per observation:         *)
(*   length            as many outputs as inputs                           *)
(*   value-tree        Eval(out[j]) = Eval(in[j]) in every environment     *)
(*   value-evaluated   what ONE instrumented evaluator instance per        *)
(*                     environment returned for out[j] is Eval(in[j])      *)
(*   wrapper-on-wrapper, not-shared     declarative predicates             *)
(*   <cache invariant> the S-layer machine is stepped over the recorded    *)
(*                     event stream of the canonical history (one instance *)
(*                     evaluates every output once); the first event that  *)
(*                     is not allowed names the clause                     *)
(*   RepeatedOpOnce    executions per recursive key <= distinct input      *)
(*                     operations with that key                            *)
(*   call-count        calls that reached the environment's functions      *)
(*   hist-value        the histogram tagger (mapper/cse_tagger) keeps the  *)
(*                     value; its sharing / nesting is only observed       *)
(* wrap record [id, kind, fn, arg, prefix, scope, res]: the helper tables. *)
(* Drift (outputs differ from the A-layer transcriptions) is reported,     *)
(* never failed.                                                           *)
(***************************************************************************)
EXTENDS C12_CSE, C12_Env, Json, IOUtils
VARIABLES blk, off

Recs == ndJsonDeserialize(IOEnv.TRACE_FILE)
BS == 16
NB == (Len(Recs) + BS - 1) \div BS
\* off = 0: no record yet.  (Initial states are evaluated by TLC's main thread, whose
\* small stack was seen to overflow sporadically on Report; the worker threads, which get
\* the enlarged stack, do all the judging.)
Init == blk \in 0..(NB - 1) /\ off = 0
Next == off < BS /\ off' = off + 1 /\ UNCHANGED blk
Idx == blk * BS + off

EvOf(rec, e) == IF e.ev \in {"ret", "raise"} THEN [ev |-> e.ev, val |-> e.val]
                ELSE [ev |-> e.ev, n |-> rec.nodes[e.n + 1]]

\* first clause of JudgeVal that is neither OK nor SKIP over (env, j), "" if none;
\* got[i][j] is a recorded value
RecordedValues(ins, got) ==
    LET bad == { p \in (1..Len(Envs)) \X (1..Len(ins)) :
                    JudgeVal(Eval(ins[p[2]], Envs[p[1]]), got[p[1]][p[2]], ins[p[2]], Envs[p[1]])
                        \notin {"OK", "SKIP"} }
    IN IF bad = {} THEN ""
       ELSE LET p == CHOOSE p \in bad : TRUE IN
            JudgeVal(Eval(ins[p[2]], Envs[p[1]]), got[p[1]][p[2]], ins[p[2]], Envs[p[1]])
NSkipped(ins, got) ==
    Cardinality({ p \in (1..Len(Envs)) \X (1..Len(ins)) :
                    JudgeVal(Eval(ins[p[2]], Envs[p[1]]), got[p[1]][p[2]], ins[p[2]], Envs[p[1]]) = "SKIP" })
TreeValues(ins, outs) ==
    LET vs == [i \in 1..Len(Envs) |-> ValuePreservedV(ins, outs, Envs[i])] IN
    IF \E i \in 1..Len(vs) : vs[i] \notin {"OK", "SKIP"}
    THEN vs[CHOOSE i \in 1..Len(vs) : vs[i] \notin {"OK", "SKIP"}] ELSE ""

F(c, pat) == [c |-> c, pat |-> pat, hosts |-> << >>, lay |-> "", ob |-> 1]
\* a sharing failure outside the known pattern names where the unshared occurrences stand
FS(c, outs, ins, Rs) ==
    LET pat == SharingPattern(ins, Rs) IN
    [c |-> c, pat |-> pat, hosts |-> IF pat = "plain" THEN SharingHosts(outs, Rs) ELSE << >>,
     lay |-> "", ob |-> 1]
Opt(cond, x) == IF cond THEN << x >> ELSE << >>

\* one observation rec of the list ins
ObsReport(ins, rec) ==
    IF rec.r # "ok" THEN [fails |-> << F("tag-raised", rec.err.e) >>,
                          skip |-> 0, drift |-> << >>, obs |-> << >>]
    ELSE IF Len(rec.outs) # Len(ins)
    THEN [fails |-> << F("length", "") >>, skip |-> 0, drift |-> << >>, obs |-> << >>]
    ELSE
    LET outs  == rec.outs
        evs   == [k \in 1..Len(rec.evs) |-> EvOf(rec, rec.evs[k])]
        run   == RunEvents(NewInst(1), evs, Envs)
        I     == run.I
        whole == run.bad = "" /\ AllReturned(evs)
                 /\ Cardinality({k \in 1..Len(evs) : evs[k].ev = "begin"}) = Len(outs)
        tv    == TreeValues(ins, outs)
        rv    == RecordedValues(ins, rec.vals)
        hv    == IF Len(rec.houts) = Len(ins) THEN RecordedValues(ins, rec.hvals) ELSE "length"
        cls   == InClasses(ins)
        occs  == SeqOccs(outs)
        sbad  == SharedBadRsC(cls, occs)
        obad  == IF whole THEN OpBadRsC(cls, I) ELSE {}
        scope == InScope(ins)      \* the sharing sentences speak about these lists only
        fails ==
            Opt(tv # "", F("value-tree", tv))
         \o Opt(rv # "", F("value-evaluated", rv))
         \o Opt(~NoWrapperOnWrapper(ins, outs), F("wrapper-on-wrapper", ""))
         \o Opt(scope /\ sbad # {}, FS("not-shared", outs, ins, sbad))
         \o Opt(run.bad # "", F(run.bad, evs[run.at].ev))
         \o Opt(scope /\ obad # {}, FS("RepeatedOpOnce", outs, ins, obad))
         \o Opt(whole /\ ~AllInstInv(I), F("final-state-invariant", ""))
         \* the independent counter exceeds the bound: explained by the operation-level
         \* finding when there is one, a class of its own otherwise
         \o Opt(scope /\ whole /\ rec.fcalls > CallBound(ins),
                F("call-count", IF obad # {} THEN SharingPattern(ins, obad) ELSE "plain"))
         \o Opt(hv # "", F("hist-value", hv))
        drift == Opt(outs # TagImpl(ins), "tagger") \o Opt(rec.houts # HistTagImpl(ins), "histogram-tagger")
        obs   == Opt(HasWrapperOnWrapper(rec.houts) /\ ~HasWrapperOnWrapper(ins), "hist-wrapper-on-wrapper")
              \o Opt(SharedBadRsC(cls, SeqOccs(rec.houts)) # {}, "hist-not-shared")
              \o Opt({R \in OccRs(occs) : NClassesC(cls, R) = 0} # {}, "unattributed-nodes")
              \o Opt(~whole /\ run.bad = "", "canonical-history-raised")
              \o Opt(~scope /\ (sbad # {} \/ obad # {}), "out-of-scope-not-shared")
    IN [fails |-> fails, skip |-> NSkipped(ins, rec.vals), drift |-> drift, obs |-> obs]

TagReport(rec) ==
    LET n    == Len(rec.obs)
        reps == [k \in 1..n |-> ObsReport(rec.ins, rec.obs[k])]
        \* the first layout that produced observation k
        layOf(k) == rec.shs[CHOOSE i \in 1..Len(rec.runs) :
                               rec.runs[i] = k /\ \A i2 \in 1..(i - 1) : rec.runs[i2] # k].cls
        base == SeqToSet(reps[1].fails)
        \* failures of a shared layout that the unshared list shows as well are the same failure
        more(k) == LET fs == SelectSeq(reps[k].fails, LAMBDA f : f \notin base) IN
                   [i \in 1..Len(fs) |-> [fs[i] EXCEPT !.lay = layOf(k), !.ob = k]]
        Flat(ss) == LET RECURSIVE Go(_)
                        Go(k) == IF k > Len(ss) THEN << >> ELSE ss[k] \o Go(k + 1)
                    IN Go(1)
        wellformed == /\ n >= 1 /\ Len(rec.runs) = Len(rec.shs) /\ Len(rec.runs) >= 1
                      /\ rec.runs[1] = 1 /\ rec.shs[1].mode = "none"
                      /\ \A i \in 1..Len(rec.runs) : rec.runs[i] \in 1..n
                      /\ \A k \in 1..n : \E i \in 1..Len(rec.runs) : rec.runs[i] = k
    IN IF ~wellformed
       THEN [id |-> rec.id, fails |-> << F("ill-formed-record", "") >>, skip |-> 0,
             drift |-> << >>, obs |-> << >>]
       ELSE [id |-> rec.id,
             fails |-> Flat([k \in 1..n |-> IF k = 1 THEN reps[1].fails ELSE more(k)]),
             skip  |-> reps[1].skip,
             drift |-> Flat([k \in 1..n |-> reps[k].drift]),
             obs   |-> Flat([k \in 1..n |-> reps[k].obs])
                       \o Opt(n > 1, "output-depends-on-object-sharing")]

WrapReport(rec) ==
    IF rec.res.r = "unser"
    THEN [id |-> rec.id, fails |-> << >>, skip |-> 1, drift |-> << >>, obs |-> << "unserialisable" >>]
    ELSE IF rec.res.r = "err"
    THEN [id |-> rec.id, fails |-> << F("helper-raised", rec.res.v.e) >>, skip |-> 0,
          drift |-> << >>, obs |-> << >>]
    ELSE
    LET res  == rec.res.e
        v    == IF rec.fn = "wrap_in_cse" THEN WICVerdict(rec.arg, rec.prefix, res)
                ELSE MCVerdict(rec.arg, rec.prefix, rec.scope, res)
        val  == WrapValueVerdict(rec.arg, res, Envs)
        pred == IF rec.fn = "wrap_in_cse" THEN WrapInCseImpl(rec.arg, rec.prefix)
                ELSE MakeCSEImpl(rec.arg, rec.prefix, rec.scope)
    IN [id |-> rec.id,
        fails |-> Opt(v \notin {"OK", "UNSPEC"}, F("helper-" \o v, rec.fn \o ":" \o rec.arg.t))
               \o Opt(val # "OK", F("helper-value", rec.fn \o ":" \o rec.arg.t)),
        skip |-> 0, drift |-> Opt(res # pred, "helper"),
        obs |-> Opt(v = "UNSPEC", "unspecified-cell")]

Report ==
    (off >= 1 /\ Idx <= Len(Recs)) =>
      LET rec == Recs[Idx]
          r   == IF rec.kind = "tag" THEN TagReport(rec) ELSE WrapReport(rec)
      IN (r.fails = << >> /\ r.skip = 0 /\ r.drift = << >> /\ r.obs = << >>)
         \/ PrintT(ToJson(r))
=============================================================================
