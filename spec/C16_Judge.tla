------------------------------ MODULE C16_Judge ------------------------------
(***************************************************************************)
(* Stage (3) for C16, unifier part: every list of unification records      *)
(* recorded from the real UnidirectionalUnifier is judged by TLC against   *)
(* the meaning layer (C16_Unify.tla).  One record of the trace file:       *)
(*   [id, p, t, C (sequence of names, <<"*">> = lhs_mapping_candidates     *)
(*    None), m (how TLC built the target), exc ("" or exception class),    *)
(*    recs (sequence of [eqs |-> seq of [l, r], lmap |-> seq of [n, e]])]  *)
(* Verdict (total, one line per record):                                   *)
(*   OK | SKIP:refusal | SKIP:simplified | lhs_not_variable | domain |     *)
(*   functional | inst | complete | complete_raises |                      *)
(*   SKIP:outside_quantifier (xv = the clause that failed on a pattern     *)
(*   whose node kinds the property's quantifier does not name)             *)
(* d = 1: the records differ from what the transcription C16_UnifyImpl     *)
(* predicts (drift report only, never a verdict).                          *)
(***************************************************************************)
EXTENDS C16_UnifyImpl, Json, IOUtils
VARIABLES blk, off

Recs == ndJsonDeserialize(IOEnv.TRACE_FILE)
BS == 64
NB == (Len(Recs) + BS - 1) \div BS

Init == blk \in 0..(NB - 1) /\ off = 0
Next == off < BS - 1 /\ off' = off + 1 /\ UNCHANGED blk
Idx == blk * BS + off + 1

FirstBad(vs) ==   \* index of the first verdict that is a failing clause, 0 if none
    IF \E i \in 1..Len(vs) : vs[i] \notin {"OK", "simplified"}
    THEN CHOOSE i \in 1..Len(vs) : vs[i] \notin {"OK", "simplified"}
                                   /\ \A j \in 1..(i - 1) : vs[j] \in {"OK", "simplified"}
    ELSE 0

Judge(rec) ==
    LET C   == SeqToSet(rec.C)
        hyp == IsInjRenaming(rec.p, rec.t, C)
        vs  == [i \in 1..Len(rec.recs) |-> RecVerdict(rec.p, rec.t, C, rec.recs[i])]
        bad == FirstBad(vs)
        v0  == IF rec.exc # ""
               THEN (IF hyp /\ C # {"*"} THEN "complete_raises" ELSE "SKIP:refusal")
               ELSE IF bad # 0 THEN vs[bad]
               ELSE IF hyp /\ Len(rec.recs) = 0 THEN "complete"
               ELSE IF \E i \in 1..Len(vs) : vs[i] = "simplified" THEN "SKIP:simplified"
               ELSE "OK"
        failing == v0 \notin {"OK", "SKIP:refusal", "SKIP:simplified"}
        ext == failing /\ ~InQuantifier(rec.p)
        v   == IF ext THEN "SKIP:outside_quantifier" ELSE v0
        drift == IF rec.exc # "" \/ C = {"*"} THEN 0
                 ELSE IF UnifyImpl(rec.p, rec.t, C)
                         = [i \in 1..Len(rec.recs) |-> LmapFun(rec.recs[i])] THEN 0 ELSE 1
    IN [id |-> rec.id, v |-> v, xv |-> IF ext THEN v0 ELSE "", k |-> bad, n |-> Len(rec.recs),
        h |-> IF hyp THEN 1 ELSE 0, d |-> drift,
        feat |-> IF HasEmptyAC(rec.p) THEN "empty-ac-in-pattern" ELSE rec.p.t]

Report == Idx <= Len(Recs) => PrintT(ToJson(Judge(Recs[Idx])))
=============================================================================
