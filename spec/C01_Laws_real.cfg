CONSTANTS
  HashMode = "real"
  Bug = "none"
INIT Init
NEXT Next
CHECK_DEADLOCK FALSE
