CONSTANT Tier = "thorough"
CONSTANT Mode = "exh"
CONSTANT Bug = "none"
INIT Init
NEXT Next
INVARIANT Lemma
INVARIANT AggLemma
INVARIANT ImplMatches
INVARIANT ImplIdentity
INVARIANT CachedMatches
INVARIANT CachedIdentity
INVARIANT Emit
CHECK_DEADLOCK FALSE
