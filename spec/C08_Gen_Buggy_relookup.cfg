CONSTANT Tier = "quick"
CONSTANT Mode = "exh"
CONSTANT Bug = "relookup"
INIT Init
NEXT Next
INVARIANT Lemma
CHECK_DEADLOCK FALSE
