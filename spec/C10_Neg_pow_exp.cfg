CONSTANT Bug = "pow_exp"
INIT Init
NEXT Next
INVARIANT Refines
CHECK_DEADLOCK FALSE
