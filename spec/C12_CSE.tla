------------------------------- MODULE C12_CSE -------------------------------
(***************************************************************************)
(* C12 - common-subexpression handling keeps meaning and shares work.      *)
(*                                                                         *)
(* Pure operators only (no variables); used by C12_Gen, C12_CSEEvalCache,  *)
(* C12_Judge and C12_HJudge.                                               *)
(*                                                                         *)
(*  M-layer  (decides verdicts)                                            *)
(*    OneLevelKey, RecKey, NClasses     which operations "occurred more    *)
(*                                      than once" / which executed node   *)
(*                                      is which input operation           *)
(*    ValuePreservedV, NoWrapperOnWrapper, RepeatedIsShared, SharedBadRs   *)
(*    wrap-helper tables WICOk / MCOk                                      *)
(*  S-layer  (decides verdicts) the evaluator instance with its wrapper    *)
(*    cache as a state record: Post (one event), the invariants            *)
(*    ChildOncePerInstance, DoneClosed, OpsWithinBound, ReturnedAllDone,   *)
(*    StackSane, ValuesRight, and RepeatedOpOnce (relative to the inputs   *)
(*    of a tagging call); Check = the first guard / invariant an event     *)
(*    would break.                                                         *)
(*  A-layer  (never decides; steers generation, names design-level         *)
(*    classes, gives the drift report)                                     *)
(*    TagImpl          transcription of pymbolic/cse.py                    *)
(*    WrapInCseImpl, MakeCSEImpl   transcription of the two helpers        *)
(*    HistTagImpl      transcription of mapper/cse_tagger.py               *)
(*    MEval            the caching evaluator (with the Buggy_* switches    *)
(*                     of the negative controls)                           *)
(*                                                                         *)
(* Round 2: trees may carry EVERY node kind of Expr.tla as a host of       *)
(* operations (calls with a call / a conditional in the function position, *)
(* calls with keyword arguments, subscripts, lookups, conditionals,        *)
(* comparisons, logical / bitwise nodes, min / max, tuples).  The tagger's *)
(* IdentityMapper handlers are transcribed with their per-handler "nothing *)
(* changed -> return the original node" shortcut (CheckedPos, IdMap), the  *)
(* evaluator with Python's laziness (if / any / all: MEval, Reached).      *)
(* InScope: the lists the sharing sentences of the statement speak about.  *)
(*                                                                         *)
(* Round 3: OBJECT SHARING of the input is part of the input space.  A     *)
(* tree record says which nodes are EQUAL; a sharing layout (Layout, below)*)
(* says which equal occurrences are ONE Python object and which are equal  *)
(* but separately built objects - per occurrence, in particular several    *)
(* operands of ONE sum / product.  The property's verdicts never look at   *)
(* the layout (the once-only claim does not depend on how the caller       *)
(* shared his objects); the transcribed use counter walks the OBJECT graph *)
(* (paths + layout), so that identity-dependent walks are expressible as   *)
(* negative controls (WalkDedupsSharedOperands, WalkSkipsSeenObjects).     *)
(*                                                                         *)
(* Assumption (stated in the evidence): inside one generated case no two   *)
(* constants are == without being identical (no 2 next to 2.0 or True      *)
(* next to 1), so Python's == on trees is structural equality of the       *)
(* records.                                                                *)
(***************************************************************************)
EXTENDS Eval

OpKinds == {"Sum", "Product", "Quotient", "FloorDiv", "Remainder", "Power", "Call"}
ACKinds == {"Sum", "Product"}
IsOp(e) == e.t \in OpKinds
IsW(e)  == e.t = "CSE"
EvalScope == "pymbolic_eval"

\* ---- bags as functions --------------------------------------------------
EmptyBag == [x \in {} |-> 0]
BagOfSeq(s) == [x \in SeqToSet(s) |-> Cardinality({i \in 1..Len(s) : s[i] = x})]
BagGet(b, x) == IF x \in DOMAIN b THEN b[x] ELSE 0
BagInc(b, x) == IF x \in DOMAIN b THEN [b EXCEPT ![x] = @ + 1] ELSE b @@ (x :> 1)
RECURSIVE FSum(_)
FSum(f) == IF DOMAIN f = {} THEN 0
           ELSE LET x == CHOOSE x \in DOMAIN f : TRUE IN
                f[x] + FSum([y \in DOMAIN f \ {x} |-> f[y]])
\* sum of F over a sequence, every element visited once (Expr's SeqSum over a function
\* expression [i \in .. |-> F(..)] re-evaluates the lazy function on every access: the
\* cost of a recursive F then grows exponentially with the depth of the tree)
SumOver(ks, F(_)) == LET RECURSIVE Go(_)
                         Go(i) == IF i > Len(ks) THEN 0 ELSE F(ks[i]) + Go(i + 1)
                     IN Go(1)
SetToSeq(S) == LET RECURSIVE Go(_)
                   Go(T) == IF T = {} THEN << >>
                            ELSE LET e == CHOOSE e \in T : TRUE IN << e >> \o Go(T \ {e})
               IN Go(S)

(***************************************************************************)
(* M-layer: keys.                                                          *)
(* OneLevelKey is the statement's notion of "the same operation": same     *)
(* node type and the same operands, for sums and products in any order     *)
(* (operands compared by ==).  RecKey forgets every wrapper and every      *)
(* operand order all the way down; it is only used to find out which       *)
(* input operations an executed node of the tagged output can stand for.   *)
(***************************************************************************)
OneLevelKey(e) == IF e.t \in ACKinds THEN [t |-> e.t, bag |-> BagOfSeq(e.c)]
                  ELSE [t |-> e.t, same |-> e]

RECURSIVE RecKey(_)
RecKey(e) ==
    CASE e.t = "CSE" -> RecKey(e.a)
      [] e.t \in ACKinds ->
            [t |-> e.t, bag |-> BagOfSeq([i \in 1..Len(e.c) |-> RecKey(e.c[i])])]
      [] e.t \in {"Var", "Const"} -> e
      \* every other kind: the node with its children blanked (keeps the comparison
      \* operator, the attribute name, the keyword names) plus the children's keys
      [] OTHER -> [t |-> e.t, ks |-> [i \in 1..Len(Kids(e)) |-> RecKey(Kids(e)[i])],
                   sk |-> WithKids(e, [i \in 1..Len(Kids(e)) |-> NoneE])]

OpNodes(e)  == {n \in SubExprs(e) : IsOp(n)}
\* The sharing sentences of the statement are made "for inputs built from variables,
\* constants, sums, products, divisions, powers and calls" (plus the pre-existing wrappers
\* of the quantifier).  Lists that carry any other node kind (subscripts, lookups,
\* conditionals, comparisons, calls with keyword arguments, ...) are judged for value,
\* for wrapper-on-wrapper and for the cache invariants; what the sharing predicates say
\* about them is an observation (a repeated node of a kind the tagger cannot wrap hides
\* the operations below it from the use count - the statement does not promise more).
ScopeKinds == OpKinds \cup {"Var", "Const", "CSE"}
InScope(ins) == \A j \in 1..Len(ins) : \A n \in SubExprs(ins[j]) : n.t \in ScopeKinds
Wrappers(e) == {n \in SubExprs(e) : IsW(n)}
SeqOpNodes(es)  == UNION {OpNodes(es[j]) : j \in 1..Len(es)}
SeqWrappers(es) == UNION {Wrappers(es[j]) : j \in 1..Len(es)}

\* the operations of the input: one pair per operation node, R = what an executed node
\* can be recognised by, k = the statement's notion of "the same operation"
InClasses(ins) == {[R |-> RecKey(n), k |-> OneLevelKey(n)] : n \in SeqOpNodes(ins)}
\* number of distinct operations (OneLevelKey classes) of the input that an
\* executed node with recursive key R can stand for
NClassesC(cls, R) == Cardinality({p \in cls : p.R = R})
NClasses(ins, R) == NClassesC(InClasses(ins), R)

\* recursive keys of everything in or inside a pre-existing wrapper that has a prefix AND
\* whose own child is among the badly shared operations (round 4: the known class is "the
\* prefixed wrapper's child does not end up in the one shared wrapper", which drags along
\* everything inside that child; an operation that merely stands somewhere below a prefixed
\* wrapper whose child IS properly shared is not explained by it)
PrefixedRs(ins, badRs) ==
    {RecKey(n) : n \in UNION {OpNodes(w) : w \in {x \in SeqWrappers(ins) :
                                                     x.prefix # "" /\ RecKey(x.a) \in badRs}}}
SharingPattern(ins, badRs) ==
    IF badRs \subseteq PrefixedRs(ins, badRs) THEN "in-preexisting-prefixed-wrapper" ELSE "plain"

\* attribution of a sharing failure: "kind of the parent : child position" of every
\* occurrence of a badly shared operation in the outputs that has no wrapper directly
\* around it ("top": the occurrence is a whole output)
RECURSIVE HostsOf(_, _)
HostsOf(e, Rs) ==
    UNION { (IF IsOp(Kids(e)[i]) /\ ~IsW(e) /\ RecKey(Kids(e)[i]) \in Rs
             THEN { e.t \o ":" \o ToString(i) } ELSE {})
            \cup HostsOf(Kids(e)[i], Rs) : i \in 1..Len(Kids(e)) }
SharingHosts(outs, Rs) ==
    SetToSeq(UNION { (IF IsOp(outs[j]) /\ RecKey(outs[j]) \in Rs THEN { "top" } ELSE {})
                     \cup HostsOf(outs[j], Rs) : j \in 1..Len(outs) })

(***************************************************************************)
(* M-layer: declarative predicates on (inputs, outputs) of a tagging call. *)
(***************************************************************************)
\* value of out[j] against the meaning of in[j] in one environment: JudgeVal's clause
ValuePreservedV(ins, outs, env) ==
    LET vs == [j \in 1..Len(ins) |->
                  JudgeVal(Eval(ins[j], env), Eval(outs[j], env), ins[j], env)]
    IN IF \E j \in 1..Len(vs) : vs[j] \notin {"OK", "SKIP"}
       THEN vs[CHOOSE j \in 1..Len(vs) : vs[j] \notin {"OK", "SKIP"}]
       ELSE IF \E j \in 1..Len(vs) : vs[j] = "SKIP" THEN "SKIP" ELSE "OK"

HasWrapperOnWrapper(es) == \E w \in SeqWrappers(es) : IsW(w.a)
\* "no wrapper is placed directly around another wrapper" (inputs that already
\* carry one are not judged: the tagger did not place it)
NoWrapperOnWrapper(ins, outs) == HasWrapperOnWrapper(ins) \/ ~HasWrapperOnWrapper(outs)

\* every occurrence of an operation in the outputs: its recursive key and the set of
\* wrappers above it ({} = bare)
RECURSIVE Occs(_, _)
Occs(e, ws) ==
    LET here == IF IsOp(e) THEN << [R |-> RecKey(e), ws |-> ws] >> ELSE << >>
        ws2  == IF IsW(e) THEN ws \cup {e} ELSE ws
        ks   == Kids(e)
        RECURSIVE Go(_)
        Go(i) == IF i > Len(ks) THEN << >> ELSE Occs(ks[i], ws2) \o Go(i + 1)
    IN here \o Go(1)
SeqOccs(es) == LET RECURSIVE Go(_)
                   Go(j) == IF j > Len(es) THEN << >> ELSE Occs(es[j], {}) \o Go(j + 1)
               IN Go(1)
\* smallest number of places the operations with key R live in: every bare
\* occurrence is its own place, the wrapped ones are "in, or inside" a chosen wrapper
MinPlacesO(occs, R) ==
    LET idx    == {i \in 1..Len(occs) : occs[i].R = R}
        bare   == Cardinality({i \in idx : occs[i].ws = {}})
        chains == {occs[i].ws : i \in idx} \ {{}}
        cands  == UNION chains
        hit    == {A \in SUBSET cands : \A ch \in chains : ch \cap A # {}}
        best   == CHOOSE A \in hit : \A A2 \in hit : Cardinality(A) <= Cardinality(A2)
    IN bare + Cardinality(best)
OccRs(occs) == {occs[i].R : i \in 1..Len(occs)}
\* keys whose operations are spread over more places than the input has distinct
\* operations with that key ("every repeated subexpression ends up in, or inside,
\* one shared wrapper"); keys unknown to the input cannot be attributed: not judged
SharedBadRsC(cls, occs) ==
    {R \in OccRs(occs) : NClassesC(cls, R) > 0 /\ MinPlacesO(occs, R) > NClassesC(cls, R)}
SharedBadRs(ins, outs) == SharedBadRsC(InClasses(ins), SeqOccs(outs))
RepeatedIsShared(ins, outs) == SharedBadRs(ins, outs) = {}
UnattributedRs(ins, outs) ==
    LET cls == InClasses(ins) IN {R \in OccRs(SeqOccs(outs)) : NClassesC(cls, R) = 0}

(***************************************************************************)
(* Round 3, input space: object-sharing layouts.                           *)
(*                                                                         *)
(* A path is the sequence of child positions (Kids order) from the root;   *)
(* the root of a tagging call is the list itself, carried as a Tup node    *)
(* (path << j >> is the j-th expression).  A layout is                      *)
(*   [mode |-> "none"]    every node a separately built object             *)
(*   [mode |-> "all"]     equal subtrees (leaves included) are one object  *)
(*                        wherever they occur (hash-consing)               *)
(*   [mode |-> "groups", gs |-> << g1, g2, .. >>]  each group a sequence   *)
(*                        of paths (document order) of EQUAL composite     *)
(*                        subtrees that are one object: the first path is  *)
(*                        where the object is built, the others re-use it; *)
(*                        every occurrence not mentioned is a new object.  *)
(* Normal form (LayoutOK): nothing is mentioned at or below a re-using     *)
(* occurrence (what stands there IS the object built at the group's first  *)
(* path, with that object's own children).  cls names the layout for       *)
(* attribution only.                                                       *)
(***************************************************************************)
Composite(e) == e.t \notin {"Var", "Const", "None", "Hole"}
Front(p) == SubSeq(p, 1, Len(p) - 1)
IsPrefix(p, q) == Len(p) <= Len(q) /\ SubSeq(q, 1, Len(p)) = p
RECURSIVE At(_, _), PathsOf(_), Before(_, _)
At(e, p) == IF Len(p) = 0 THEN e ELSE At(Kids(e)[p[1]], Tail(p))
PathsOf(e) == {<< >>} \cup UNION { { << i >> \o p : p \in PathsOf(Kids(e)[i]) } : i \in 1..Len(Kids(e)) }
\* p strictly before q in document order (preorder, left to right)
Before(p, q) == IF Len(p) = 0 THEN Len(q) > 0
                ELSE IF Len(q) = 0 THEN FALSE
                ELSE IF p[1] # q[1] THEN p[1] < q[1] ELSE Before(Tail(p), Tail(q))
SortPaths(S) == LET RECURSIVE Go(_)
                    Go(T) == IF T = {} THEN << >>
                             ELSE LET f == CHOOSE x \in T : \A y \in T \ {x} : Before(x, y)
                                  IN << f >> \o Go(T \ {f})
                IN Go(S)
NoLayout  == [mode |-> "none", gs |-> << >>, cls |-> "none"]
AllLayout == [mode |-> "all", gs |-> << >>, cls |-> "all-equal-subtrees-shared"]
GroupsClass(gs) ==
    IF \E i \in 1..Len(gs) : \E k, l \in 1..Len(gs[i]) : k < l /\ Front(gs[i][k]) = Front(gs[i][l])
    THEN "operands-of-one-node-shared" ELSE "shared-across-nodes"
GroupsLayout(gs) == [mode |-> "groups", gs |-> gs, cls |-> GroupsClass(gs)]
LayoutOK(root, lay) ==
    lay.mode = "groups" =>
        LET gs == lay.gs IN
        /\ \A i \in 1..Len(gs) :
              /\ Len(gs[i]) >= 2
              /\ \A k \in 1..Len(gs[i]) : /\ Len(gs[i][k]) > 0
                                          /\ gs[i][k] \in PathsOf(root)
                                          /\ At(root, gs[i][k]) = At(root, gs[i][1])
                                          /\ Composite(At(root, gs[i][k]))
              /\ \A k \in 1..(Len(gs[i]) - 1) : Before(gs[i][k], gs[i][k + 1])
        /\ \A i, j \in 1..Len(gs) : \A k \in 1..Len(gs[i]) : \A l \in 2..Len(gs[j]) :
              (i # j \/ k # l) => ~IsPrefix(gs[j][l], gs[i][k])
\* the path at which the object standing at path p was built
GroupFirst(gs, p) ==
    IF \E i \in 1..Len(gs) : \E k \in 1..Len(gs[i]) : gs[i][k] = p
    THEN gs[CHOOSE i \in 1..Len(gs) : \E k \in 1..Len(gs[i]) : gs[i][k] = p][1] ELSE p
CanonPath(gs, p) == LET RECURSIVE Go(_, _)
                        Go(c, k) == LET c2 == GroupFirst(gs, c) IN
                                    IF k > Len(p) THEN c2 ELSE Go(Append(c2, p[k]), k + 1)
                    IN Go(<< >>, 1)
\* object identity: two paths hold the same object iff their ObjId is equal
ObjId(root, lay, p) ==
    CASE lay.mode = "all" -> [v |-> At(root, p)]
      [] lay.mode = "groups" -> [p |-> CanonPath(lay.gs, p)]
      [] OTHER -> [p |-> p]

\* composite nodes below the root with their paths
RECURSIVE NodesAt(_, _)
NodesAt(e, path) ==
    (IF Composite(e) /\ Len(path) > 0 THEN {[p |-> path, v |-> e]} ELSE {})
    \cup UNION { NodesAt(Kids(e)[i], Append(path, i)) : i \in 1..Len(Kids(e)) }
\* The layouts generated for a list (besides "none", which every case has), as a sequence:
\*   for every repeated composite subtree value X with occurrences O(X)
\*     - all of O(X) one object,
\*     - the occurrences that are operands of ONE node (same parent) one object, the
\*       others separate objects,
\*     - rich: any two occurrences one object when X occurs 3 or 4 times,
\*   rich: two repeated values fully shared at once,
\*   hash-consing of everything (leaves included).
\* Layouts that make operands of one node one object come first (attribution).
LayoutsOf(ins, rich) ==
    LET root == [t |-> "Tup", c |-> ins]
        occ  == NodesAt(root, << >>)
        O(X) == { o.p : o \in { x \in occ : x.v = X } }
        rep  == { X \in { o.v : o \in occ } : Cardinality(O(X)) >= 2 }
        sib(X) == { s \in { { p \in O(X) : Front(p) = pp } : pp \in { Front(p) : p \in O(X) } } :
                       Cardinality(s) >= 2 }
        pairs(X) == IF rich /\ Cardinality(O(X)) \in 3..4
                    THEN { s \in SUBSET O(X) : Cardinality(s) = 2 } ELSE {}
        one  == { << SortPaths(g) >> : g \in UNION { {O(X)} \cup sib(X) \cup pairs(X) : X \in rep } }
        \* two values at once: what lies below a re-using occurrence of the other is dropped
        trim(g, h) == { p \in g : \A q \in h \ {CHOOSE x \in h : \A y \in h \ {x} : Before(x, y)} :
                                     ~IsPrefix(q, p) }
        two  == IF ~rich THEN {}
                ELSE { << SortPaths(trim(O(pr[1]), O(pr[2]))), SortPaths(trim(O(pr[2]), O(pr[1]))) >> :
                          pr \in { qr \in rep \X rep :
                                      /\ qr[1] # qr[2]
                                      /\ Before(SortPaths(O(qr[1]))[1], SortPaths(O(qr[2]))[1])
                                      /\ Cardinality(trim(O(qr[1]), O(qr[2]))) >= 2
                                      /\ Cardinality(trim(O(qr[2]), O(qr[1]))) >= 2 } }
        lays == { GroupsLayout(gs) : gs \in one \cup two }
        near == { l \in lays : l.cls = "operands-of-one-node-shared" }
    IN SetToSeq(near) \o SetToSeq(lays \ near) \o << AllLayout >>

(***************************************************************************)
(* A-layer: the wrap helpers as the code has them                          *)
(* (pymbolic/primitives.py wrap_in_cse, make_common_subexpression).        *)
(* Object arrays: [t |-> "Arr", shape, c] (row major); multivectors:       *)
(* [t |-> "MV", bits, c]; prefix None is "", scope None is "".             *)
(***************************************************************************)
CONSTANT Bug        \* "none" or the name of a negative control

WrapInCseImpl(e, prefix) ==
    IF e.t \in {"Var", "Sub"} THEN e
    ELSE IF e.t = "CSE" THEN
        (IF Bug = "WrapNested" THEN CSE(e, prefix, EvalScope)
         ELSE IF prefix = "" THEN e
         ELSE IF e.prefix = "" THEN CSE(e.a, prefix, EvalScope)
         ELSE e)
    ELSE CSE(e, prefix, EvalScope)

EffScope(s) == IF s = "" THEN EvalScope ELSE s
IsConstE(e) == e.t = "Const"
MakeScalarImpl(e, prefix, scope) ==
    IF e.t = "CSE" /\ (scope \in {"", EvalScope} \/ e.scope = scope) THEN e
    ELSE IF IsConstE(e) THEN e
    ELSE CSE(e, prefix, EffScope(scope))
\* component names: arrays prefix + "_".join(indices), multivectors prefix + "_" + blade
RECURSIVE JoinIdx(_)
JoinIdx(ix) == IF Len(ix) = 0 THEN "" ELSE IF Len(ix) = 1 THEN ToString(ix[1])
               ELSE ToString(ix[1]) \o "_" \o JoinIdx(Tail(ix))
RECURSIVE Unravel(_, _)
\* 0-based flat index k -> index tuple for a row-major shape
Unravel(k, shape) ==
    IF Len(shape) = 0 THEN << >>
    ELSE LET rest == SubSeq(shape, 2, Len(shape))
             RECURSIVE Prod(_) Prod(s) == IF Len(s) = 0 THEN 1 ELSE s[1] * Prod(Tail(s))
             p == Prod(rest)
         IN << k \div p >> \o Unravel(k % p, rest)
BladeStr(bits) == (IF (bits % 2) = 1 THEN "e0" ELSE "")
                  \o (IF ((bits \div 2) % 2) = 1 THEN "e1" ELSE "")
                  \o (IF ((bits \div 4) % 2) = 1 THEN "e2" ELSE "")
MakeCSEImpl(e, prefix, scope) ==
    CASE e.t = "Arr" ->
            [e EXCEPT !.c = [i \in 1..Len(e.c) |->
                MakeScalarImpl(e.c[i],
                    IF prefix = "" THEN "" ELSE prefix \o JoinIdx(Unravel(i - 1, e.shape)),
                    scope)]]
      [] e.t = "MV" ->
            [e EXCEPT !.c = [i \in 1..Len(e.c) |->
                MakeScalarImpl(e.c[i],
                    IF prefix = "" THEN "" ELSE prefix \o "_" \o BladeStr(e.bits[i]),
                    scope)]]
      [] OTHER -> MakeScalarImpl(e, prefix, scope)

(***************************************************************************)
(* M-layer: what the statement and the helpers' documentation fix about    *)
(* the helpers.  Each helper leaves its own documented classes alone       *)
(* (wrap_in_cse: variables, subscripts, wrapped nodes; make_common_        *)
(* subexpression: constants, wrapped nodes), wraps everything else once,   *)
(* and make_common_subexpression works componentwise.  Cells the statement *)
(* and the documentation answer differently are "UNSPEC": not judged.      *)
(***************************************************************************)
WICVerdict(e, prefix, res) ==
    CASE e.t \in {"Var", "Sub"} -> IF res = e THEN "OK" ELSE "wrapped-leaf"
      [] e.t = "CSE" ->
            IF res = e THEN "OK"
            ELSE IF IsW(res) /\ IsW(res.a) THEN "rewrapped"
            ELSE IF IsW(res) /\ res.a = e.a /\ e.prefix = "" /\ prefix # "" /\ res.prefix = prefix
                 THEN "OK"        \* the one wrapper took the offered name
            ELSE "rewrapped"
      [] e.t = "Const" -> "UNSPEC"   \* statement: constants unwrapped; helper wraps them
      [] OTHER -> IF res = CSE(e, prefix, EvalScope) THEN "OK" ELSE "not-wrapped-once"

\* one scalar component; names of components are the code's business (drift only):
\* no name may appear from nowhere, and a given name must not be dropped
MCScalarVerdict(e, prefix, scope, res, component) ==
    CASE IsConstE(e) -> IF res = e THEN "OK" ELSE "wrapped-constant"
      [] e.t = "CSE" ->
            IF scope \in {"", EvalScope} \/ e.scope = scope
            THEN (IF res = e THEN "OK" ELSE "rewrapped")
            ELSE "UNSPEC"          \* wider scope requested: helper wraps the wrapper
      [] e.t \in {"Var", "Sub"} -> "UNSPEC"   \* statement: unwrapped; helper wraps them
      [] OTHER ->
            IF IsW(res) /\ res.a = e /\ res.scope = EffScope(scope)
               /\ (IF component THEN (prefix = "") = (res.prefix = "") ELSE res.prefix = prefix)
            THEN "OK" ELSE "not-wrapped-once"

FirstBad(vs) == IF \E i \in 1..Len(vs) : vs[i] \notin {"OK", "UNSPEC"}
                THEN vs[CHOOSE i \in 1..Len(vs) : vs[i] \notin {"OK", "UNSPEC"}]
                ELSE IF \E i \in 1..Len(vs) : vs[i] = "UNSPEC" THEN "UNSPEC" ELSE "OK"
MCVerdict(e, prefix, scope, res) ==
    IF e.t \in {"Arr", "MV"} THEN
        (IF res.t # e.t \/ Len(res.c) # Len(e.c)
            \/ (e.t = "Arr" /\ res.shape # e.shape) \/ (e.t = "MV" /\ res.bits # e.bits)
         THEN "not-componentwise"
         ELSE FirstBad([i \in 1..Len(e.c) |->
                          MCScalarVerdict(e.c[i], prefix, scope, res.c[i], TRUE)]))
    ELSE IF res.t \in {"Arr", "MV"} THEN "not-componentwise"
    ELSE MCScalarVerdict(e, prefix, scope, res, FALSE)

\* value of a helper's result against the value of its argument (component by component)
Comps(e) == IF e.t \in {"Arr", "MV"} THEN e.c ELSE << e >>
WrapValueVerdict(arg, res, envs) ==
    IF Len(Comps(arg)) # Len(Comps(res)) THEN "OK"     \* the shape clause speaks
    ELSE LET vs == [k \in 1..(Len(envs) * Len(Comps(arg))) |->
                 LET i == ((k - 1) % Len(Comps(arg))) + 1
                     en == envs[((k - 1) \div Len(Comps(arg))) + 1]
                 IN JudgeVal(Eval(Comps(arg)[i], en), Eval(Comps(res)[i], en), Comps(arg)[i], en)]
         IN IF \E k \in 1..Len(vs) : vs[k] \notin {"OK", "SKIP"}
            THEN vs[CHOOSE k \in 1..Len(vs) : vs[k] \notin {"OK", "SKIP"}] ELSE "OK"

(***************************************************************************)
(* A-layer: pymbolic/cse.py as the code has it.                            *)
(*   NormalizedKeyGetter  -> KeyOf                                         *)
(*   UseCountMapper       -> UCWalk  (no descent below a key seen before;  *)
(*                           wrappers: walk the child first, then count)   *)
(*   CSEMapper            -> CM      (canonical table threaded through     *)
(*                           the traversal in mapping order)               *)
(***************************************************************************)
KeyOf(e) ==
    IF e.t \in ACKinds THEN
        (IF Bug = "KeyDropsCounts" THEN [t |-> e.t, kids |-> SeqToSet(e.c)]
         ELSE IF Bug = "KeyDropsType" THEN [t |-> "AC", bag |-> BagOfSeq(e.c)]
         ELSE [t |-> e.t, bag |-> BagOfSeq(e.c)])
    ELSE [t |-> "same", same |-> e]

\* Round 3: the walk goes over the OBJECT graph of the input - ctx = [root, lay] is the list
\* (as a Tup node) with its sharing layout, path says where the walk stands, st = [cnt, seen].
\* WalkMapper's handlers call rec on EVERY child in turn, however the children are shared, and
\* visit() looks at the key only: the code's walk does not depend on the layout.  The negative
\* controls make it depend on it:
\*   WalkDedupsSharedOperands  an operand object that stands several times among the children
\*                             of one node (sum, product, call, quotient, ...) is walked once
\*   WalkSkipsSeenObjects      an object the walk has met before (anywhere) is not looked at again
\* Round 4: when the walk first meets a PRE-EXISTING wrapper it must go on below the wrapper
\* (the code calls rec on the wrapper's child: the child and everything below it is counted like
\* any other expression).  Negative controls that cut this descent:
\*   WrapperCountStopsAtChild  only the wrapper's direct child is counted (visit, no descent):
\*                             what stands at depth >= 2 below the wrapper is never counted
\*   WrapperCountSkipsChild    nothing below a pre-existing wrapper is counted at all
IdentityBugs == {"WalkDedupsSharedOperands", "WalkSkipsSeenObjects"}
\* visit() alone: count the node, do not descend
UCVisitOnly(e, st) ==
    LET k == KeyOf(e)  cnt == st.cnt IN
    IF k \in DOMAIN cnt THEN [st EXCEPT !.cnt = [cnt EXCEPT ![k] = @ + 1]]
    ELSE [st EXCEPT !.cnt = cnt @@ (k :> 1)]
RECURSIVE UCWalk(_, _, _, _)
UCWalkKids(ctx, e, path, st) ==
    LET ks == Kids(e)
        dup(i) == /\ Bug = "WalkDedupsSharedOperands" /\ Len(path) > 0
                  /\ \E j \in 1..(i - 1) : ObjId(ctx.root, ctx.lay, Append(path, j))
                                            = ObjId(ctx.root, ctx.lay, Append(path, i))
        RECURSIVE Go(_, _)
        Go(i, s) == IF i > Len(ks) THEN s
                    ELSE Go(i + 1, IF dup(i) THEN s ELSE UCWalk(ctx, ks[i], Append(path, i), s))
    IN Go(1, st)
UCWalk(ctx, e, path, st) ==
    LET k   == KeyOf(e)
        oid == ObjId(ctx.root, ctx.lay, path)
    IN
    IF Bug = "WalkSkipsSeenObjects" /\ oid \in st.seen THEN st
    ELSE LET st0 == IF Bug = "WalkSkipsSeenObjects" THEN [st EXCEPT !.seen = @ \cup {oid}] ELSE st
             cnt == st0.cnt
         IN
         IF k \in DOMAIN cnt THEN [st0 EXCEPT !.cnt = [cnt EXCEPT ![k] = @ + 1]]
         ELSE IF e.t = "CSE" THEN
             LET s1 == IF Bug = "WrapperCountStopsAtChild" THEN UCVisitOnly(e.a, st0)
                       ELSE IF Bug = "WrapperCountSkipsChild" THEN st0
                       ELSE UCWalk(ctx, e.a, Append(path, 1), st0)
                 c1 == s1.cnt
             IN [s1 EXCEPT !.cnt = [x \in DOMAIN c1 \cup {k} |-> IF x = k THEN 1 ELSE c1[x]]]
         ELSE UCWalkKids(ctx, e, path, [st0 EXCEPT !.cnt = cnt @@ (k :> 1)])
\* tag_common_subexpressions: one use counter walks every expression of the list in turn
UseCounts(ins, lay) ==
    LET root == [t |-> "Tup", c |-> ins] IN
    UCWalkKids([root |-> root, lay |-> lay], root, << >>, [cnt |-> EmptyBag, seen |-> {}]).cnt

RECURSIVE CM(_, _, _), CMSeq(_, _, _, _)
CMSeq(es, i, tab, elim) ==
    IF i > Len(es) THEN [es |-> << >>, tab |-> tab]
    ELSE LET r    == CM(es[i], tab, elim)
             rest == CMSeq(es, i + 1, r.tab, elim)
         IN [es |-> << r.e >> \o rest.es, tab |-> rest.tab]
\* IdentityMapper's handlers: map every child (in Kids order, which is the order of every
\* handler), then "nothing changed -> return the original node", else rebuild.  Every
\* handler has its OWN shortcut test over its own child positions (function, parameters
\* and keyword values of a call; aggregate and index; condition and both branches; ...):
\* CheckedPos is the set of positions the handler of e's kind looks at.  The shortcut is
\* only right when it looks at EVERY position - the negative controls drop one.
CheckedPos(e) ==
    LET n == Len(Kids(e)) IN
    IF Bug = "ShortcutSkipsFunction" /\ e.t \in {"Call", "CallKw"} THEN 2..n
    ELSE IF Bug = "ShortcutSkipsLast" /\ e.t \notin ACKinds /\ n >= 2 THEN 1..(n - 1)
    ELSE 1..n
IdMap(e, tab, elim) ==
    LET r  == CMSeq(Kids(e), 1, tab, elim)
        ks == Kids(e)
    IN [e |-> IF \A i \in CheckedPos(e) : r.es[i] = ks[i] THEN e ELSE WithKids(e, r.es),
        tab |-> r.tab]
CM(e, tab, elim) ==
    IF e.t \in {"Var", "Const"} THEN [e |-> e, tab |-> tab]
    ELSE IF e.t = "CSE" THEN
        LET r == CM(e.a, tab, elim) IN [e |-> WrapInCseImpl(r.e, e.prefix), tab |-> r.tab]
    ELSE IF ~IsOp(e) THEN IdMap(e, tab, elim)    \* every other kind: IdentityMapper's handler
    ELSE LET k == KeyOf(e) IN
         IF k \in elim /\ Bug # "NeverTag" THEN
            (IF k \in DOMAIN tab /\ Bug # "NoCanonical" THEN [e |-> tab[k], tab |-> tab]
             ELSE LET r == IdMap(e, tab, elim)
                      w == WrapInCseImpl(r.e, "")
                  IN [e |-> w, tab |-> [x \in DOMAIN r.tab \cup {k} |->
                                           IF x = k THEN w ELSE r.tab[x]]])
         ELSE IdMap(e, tab, elim)

\* the tagger on a list whose objects are shared as lay says
TagImplL(ins, lay) ==
    LET cnt  == UseCounts(ins, lay)
        elim == {k \in DOMAIN cnt : cnt[k] > 1}
    IN CMSeq(ins, 1, EmptyBag, elim).es
TagImpl(ins) == TagImplL(ins, NoLayout)

(***************************************************************************)
(* A-layer: mapper/cse_tagger.py (histogram over exact ==, every node      *)
(* visited, repeated operation nodes wrapped without looking below them).  *)
(***************************************************************************)
RECURSIVE Histo(_, _)
HistoSeq(es, h) ==
    LET RECURSIVE Go(_, _)
        Go(i, c) == IF i > Len(es) THEN c ELSE Go(i + 1, Histo(es[i], c))
    IN Go(1, h)
Histo(e, h) == HistoSeq(Kids(e), BagInc(h, e))
RECURSIVE HTag(_, _)
HistTagKinds == OpKinds \cup {"LShift", "RShift", "BitNot", "BitOr", "BitXor", "BitAnd", "Cmp",
                             "LogNot", "LogAnd", "LogOr", "If"}
HTag(e, h) ==
    IF e.t \in HistTagKinds /\ BagGet(h, e) > 1 THEN CSE(e, "", EvalScope)
    ELSE WithKids(e, [i \in 1..Len(Kids(e)) |-> HTag(Kids(e)[i], h)])
HistTagImpl(ins) ==
    LET h == HistoSeq(ins, EmptyBag) IN [j \in 1..Len(ins) |-> HTag(ins[j], h)]

(***************************************************************************)
(* S-layer: one evaluator instance and its wrapper cache.                  *)
(*                                                                         *)
(*   env       index of the environment the instance was created with      *)
(*   busy/cur  a top-level evaluation is in progress / its expression      *)
(*   stack     wrappers whose child is being computed right now            *)
(*   started   bag: wrapper -> number of times its child was started       *)
(*   completed bag: wrapper -> number of times its child was finished      *)
(*   done      wrappers whose child has been computed (the cache's keys)   *)
(*   restarted wrappers whose child was started again although done        *)
(*   ops       bag: operation node -> number of times it was executed      *)
(*   begun     bag: expression -> number of top-level evaluations begun    *)
(*   returned  expressions a top-level evaluation returned a value for     *)
(*   verdicts  JudgeVal's answers for the values returned / raised         *)
(*                                                                         *)
(* Events: [ev |-> "begin", n], "op" [n], "child" [n], "done" [n],         *)
(*         "ret" [val], "raise" [val].                                     *)
(***************************************************************************)
NewInst(envIx) ==
    [env |-> envIx, busy |-> FALSE, cur |-> NoneE, stack |-> << >>,
     started |-> EmptyBag, completed |-> EmptyBag, done |-> {}, restarted |-> {},
     ops |-> EmptyBag, begun |-> EmptyBag, returned |-> {}, verdicts |-> {},
     needR |-> {}, needD |-> {}]

\* The wrappers the evaluation of e REACHES in environment env: all of them, except what
\* stands in the branch of a conditional that is not taken and behind the operand that
\* decides a lazy and / or (Python's if / any / all; every other node kind evaluates all
\* its children).  Only used after the evaluation returned a value, so no reached
\* subexpression raised; a condition whose truth the model cannot tell (value outside the
\* model) contributes nothing beyond itself.
RECURSIVE Reached(_, _)
ReachedLazy(es, env, isOr) ==
    LET RECURSIVE Go(_)
        Go(i) == IF i > Len(es) THEN {}
                 ELSE LET v == Eval(es[i], env) IN
                      Reached(es[i], env)
                      \cup (IF IsUnrep(v) \/ IsErr(v) \/ Truthy(v) = isOr THEN {} ELSE Go(i + 1))
    IN Go(1)
Reached(e, env) ==
    CASE e.t = "If" ->
            LET c == Eval(e.i, env) IN
            Reached(e.i, env)
            \cup (IF IsUnrep(c) \/ IsErr(c) THEN {}
                  ELSE IF Truthy(c) THEN Reached(e.th, env) ELSE Reached(e.el, env))
      [] e.t = "LogOr"  -> ReachedLazy(e.c, env, TRUE)
      [] e.t = "LogAnd" -> ReachedLazy(e.c, env, FALSE)
      [] OTHER -> (IF IsW(e) THEN {e} ELSE {})
                  \cup UNION {Reached(Kids(e)[i], env) : i \in 1..Len(Kids(e))}

Post(I, ev, envs) ==
    CASE ev.ev = "begin" -> [I EXCEPT !.busy = TRUE, !.cur = ev.n, !.stack = << >>,
                                      !.begun = BagInc(@, ev.n)]
      [] ev.ev = "op"    -> [I EXCEPT !.ops = BagInc(@, ev.n)]
      [] ev.ev = "child" -> [I EXCEPT !.stack = Append(@, ev.n), !.started = BagInc(@, ev.n),
                                      !.restarted = IF ev.n \in I.done THEN @ \cup {ev.n} ELSE @]
      [] ev.ev = "done"  -> [I EXCEPT !.stack = IF Len(@) > 0 THEN SubSeq(@, 1, Len(@) - 1) ELSE @,
                                      !.completed = BagInc(@, ev.n), !.done = @ \cup {ev.n},
                                      !.needD = @ \cup Reached(ev.n.a, envs[I.env])]
      [] ev.ev = "ret"   -> [I EXCEPT !.busy = FALSE, !.returned = @ \cup {I.cur},
                                      !.needR = @ \cup Reached(I.cur, envs[I.env]),
                                      !.verdicts = @ \cup {JudgeVal(Eval(I.cur, envs[I.env]), ev.val,
                                                                    I.cur, envs[I.env])}]
      [] ev.ev = "raise" -> [I EXCEPT !.busy = FALSE, !.stack = << >>,
                                      !.verdicts = @ \cup {JudgeVal(Eval(I.cur, envs[I.env]), ev.val,
                                                                    I.cur, envs[I.env])}]

\* occurrences of node n in t that no wrapper separates from t's root
RECURSIVE OccOut(_, _)
OccOut(n, t) == IF IsW(t) THEN 0
                ELSE (IF t = n THEN 1 ELSE 0)
                     + SumOver(Kids(t), LAMBDA k : OccOut(n, k))

\* ---- the invariants of one instance -------------------------------------
\* "an evaluator computes the child of each distinct wrapper exactly once": at most once
ChildOncePerInstance(I) ==
    /\ I.restarted = {}
    /\ \A w \in DOMAIN I.completed : I.completed[w] <= 1
\* a cached wrapper's child has itself been computed completely: every wrapper the
\* evaluation of the child reaches (all of them when the child has no conditional) is cached
DoneClosed(I) == I.needD \subseteq I.done
\* an operation is executed only as often as it stands outside every wrapper in what
\* was evaluated, plus once per started computation of a wrapper child it stands in
OpsWithinBound(I) ==
    \A n \in DOMAIN I.ops :
        I.ops[n] <= FSum([e \in DOMAIN I.begun |-> I.begun[e] * OccOut(n, e)])
                    + FSum([w \in DOMAIN I.started |-> I.started[w] * OccOut(n, w.a)])
\* ... exactly once: at least once - after a value was returned every wrapper of the
\* expression is in the cache of THIS instance
\* (every wrapper the evaluation reaches: all of them when there is no conditional)
ReturnedAllDone(I) == I.needR \subseteq I.done
StackSane(I) == /\ \A i \in 1..Len(I.stack) : I.stack[i] \in DOMAIN I.started
                /\ (Len(I.stack) > 0 => I.busy)
\* the cache is transparent: every value returned / exception raised is the meaning's
ValuesRight(I) == I.verdicts \subseteq {"OK", "SKIP"}

InstInvNames == << "ChildOncePerInstance", "DoneClosed", "OpsWithinBound",
                   "ReturnedAllDone", "StackSane", "ValuesRight" >>
InstInv(I, name) ==
    CASE name = "ChildOncePerInstance" -> ChildOncePerInstance(I)
      [] name = "DoneClosed" -> DoneClosed(I)
      [] name = "OpsWithinBound" -> OpsWithinBound(I)
      [] name = "ReturnedAllDone" -> ReturnedAllDone(I)
      [] name = "StackSane" -> StackSane(I)
      [] name = "ValuesRight" -> ValuesRight(I)
AllInstInv(I) == \A k \in 1..Len(InstInvNames) : InstInv(I, InstInvNames[k])

\* structural enabledness of an event (a trace that is not even well-formed)
Enabled(I, ev) ==
    CASE ev.ev = "begin" -> ~I.busy
      [] ev.ev = "op"    -> I.busy /\ IsOp(ev.n)
      [] ev.ev = "child" -> I.busy /\ IsW(ev.n)
      [] ev.ev = "done"  -> I.busy /\ Len(I.stack) > 0 /\ I.stack[Len(I.stack)] = ev.n
      [] ev.ev = "ret"   -> I.busy /\ Len(I.stack) = 0
      [] ev.ev = "raise" -> I.busy
      [] OTHER -> FALSE

\* "OK" or the name of the guard / the first invariant the event would break
CheckFull(I, ev, envs) ==
    IF ~Enabled(I, ev) THEN "ill-formed-" \o ev.ev
    ELSE LET J == Post(I, ev, envs) IN
         IF AllInstInv(J) THEN "OK"
         ELSE InstInvNames[CHOOSE k \in 1..Len(InstInvNames) :
                 ~InstInv(J, InstInvNames[k])
                 /\ \A k2 \in 1..(k - 1) : InstInv(J, InstInvNames[k2])]

\* the same decision for a state I that satisfies the invariants, looking only at what
\* the event can change (op: the bound of that node; child: the wrapper must not be
\* cached; done: that wrapper's count and closure; ret/raise: the expression's
\* wrappers and the value)
OpBoundFor(I, n) ==
    BagGet(I.ops, n) <= FSum([e \in DOMAIN I.begun |-> I.begun[e] * OccOut(n, e)])
                        + FSum([w \in DOMAIN I.started |-> I.started[w] * OccOut(n, w.a)])
Check(I, ev, envs) ==
    IF ~Enabled(I, ev) THEN "ill-formed-" \o ev.ev
    ELSE LET J == Post(I, ev, envs) IN
         CASE ev.ev = "op" -> IF OpBoundFor(J, ev.n) THEN "OK" ELSE "OpsWithinBound"
           [] ev.ev = "child" -> IF ev.n \in I.done THEN "ChildOncePerInstance" ELSE "OK"
           [] ev.ev = "done" ->
                 IF J.completed[ev.n] > 1 THEN "ChildOncePerInstance"
                 ELSE IF ~(Reached(ev.n.a, envs[I.env]) \subseteq J.done) THEN "DoneClosed" ELSE "OK"
           [] ev.ev = "ret" ->
                 IF ~(Reached(I.cur, envs[I.env]) \subseteq J.done) THEN "ReturnedAllDone"
                 ELSE IF ~ValuesRight(J) THEN "ValuesRight" ELSE "OK"
           [] ev.ev = "raise" -> IF ~ValuesRight(J) THEN "ValuesRight" ELSE "OK"
           [] OTHER -> "OK"

\* run a whole event list; stops at the first event that is not allowed
RunEvents(I0, evs, envs) ==
    LET RECURSIVE Go(_, _)
        Go(i, I) == IF i > Len(evs) THEN [I |-> I, bad |-> "", at |-> 0]
                    ELSE LET c == Check(I, evs[i], envs) IN
                         IF c = "OK" THEN Go(i + 1, Post(I, evs[i], envs))
                         ELSE [I |-> I, bad |-> c, at |-> i]
    IN Go(1, I0)
\* the same without guards (the model's recorder: invariants are checked by TLC)
PostAll(I0, evs, envs) ==
    LET RECURSIVE Go(_, _)
        Go(i, I) == IF i > Len(evs) THEN I ELSE Go(i + 1, Post(I, evs[i], envs))
    IN Go(1, I0)

(***************************************************************************)
(* S-layer, relative to a tagging call: RepeatedOpOnce.                    *)
(* One instance evaluated every output once, every evaluation returned.    *)
(* For every recursive key R the executions of nodes with key R number at  *)
(* most the distinct operations of the input with key R.                   *)
(***************************************************************************)
OpBadRsC(cls, I) ==
    LET rk == [n \in DOMAIN I.ops |-> RecKey(n)]
        count(R) == FSum([n \in {m \in DOMAIN I.ops : rk[m] = R} |-> I.ops[n]])
    IN {R \in {rk[n] : n \in DOMAIN I.ops} : NClassesC(cls, R) > 0 /\ count(R) > NClassesC(cls, R)}
OpBadRs(ins, I) == OpBadRsC(InClasses(ins), I)
RepeatedOpOnce(ins, I) == OpBadRs(ins, I) = {}
\* independent count: calls that reached the function objects of the environment
\* (calls with keyword arguments are no operation of the statement and are never shared:
\* each occurrence in the input may reach its function once)
RECURSIVE NKwCalls(_)
NKwCalls(e) == (IF e.t = "CallKw" THEN 1 ELSE 0)
               + SumOver(Kids(e), NKwCalls)
CallBound(ins) == Cardinality({p \in InClasses(ins) : p.R.t = "Call"})
                  + SumOver(ins, NKwCalls)

(***************************************************************************)
(* A-layer: the caching evaluator (CSECachingMapperMixin + EvaluationMapper*)
(* order of evaluation), producing the event list, the new cache and the   *)
(* value.  cache: wrapper -> value.  Bug switches: "NoCache" (never looks  *)
(* up), "KeyIgnoresPrefix" (cache keyed by the child only); "SharedCache"  *)
(* (one cache for all instances) lives in C12_CSEEvalCache.                *)
(***************************************************************************)
CKey(w) == IF Bug = "KeyIgnoresPrefix" THEN w.a ELSE w
RECURSIVE MEval(_, _, _)
MEvalSeq(es, cache, env) ==
    LET RECURSIVE Go(_, _, _, _)
        Go(i, c, evs, vs) ==
            IF i > Len(es) THEN [evs |-> evs, cache |-> c, vs |-> vs, err |-> NoneE]
            ELSE LET r == MEval(es[i], c, env) IN
                 IF IsErr(r.v) THEN [evs |-> evs \o r.evs, cache |-> r.cache, vs |-> vs, err |-> r.v]
                 ELSE Go(i + 1, r.cache, evs \o r.evs, Append(vs, r.v))
    IN Go(1, cache, << >>, << >>)
\* any(...) / all(...) over a generator: stops at the deciding operand
MEvalLazy(es, cache, env, isOr) ==
    LET RECURSIVE Go(_, _, _)
        Go(i, c, evs) ==
            IF i > Len(es) THEN [evs |-> evs, cache |-> c, v |-> BoolV(~isOr)]
            ELSE LET r == MEval(es[i], c, env) IN
                 IF IsErr(r.v) \/ IsUnrep(r.v) THEN [evs |-> evs \o r.evs, cache |-> r.cache, v |-> r.v]
                 ELSE IF Truthy(r.v) = isOr THEN [evs |-> evs \o r.evs, cache |-> r.cache, v |-> BoolV(isOr)]
                 ELSE Go(i + 1, r.cache, evs \o r.evs)
    IN Go(1, cache, << >>)
\* the order in which EvaluationMapper's handler evaluates the children (positions of Kids):
\* map_call_with_kwargs evaluates the parameters and keyword values first, the function last
EvalOrder(e) == LET n == Len(Kids(e)) IN
                IF e.t = "CallKw" THEN [i \in 1..n |-> IF i = n THEN 1 ELSE i + 1]
                ELSE [i \in 1..n |-> i]
MEval(e, cache, env) ==
    IF e.t \in {"Var", "Const"} THEN [evs |-> << >>, cache |-> cache, v |-> Eval(e, env)]
    ELSE IF e.t = "CSE" THEN
        (IF Bug # "NoCache" /\ CKey(e) \in DOMAIN cache
         THEN [evs |-> << >>, cache |-> cache, v |-> cache[CKey(e)]]
         ELSE LET r == MEval(e.a, cache, env) IN
              IF IsErr(r.v)
              THEN [evs |-> << [ev |-> "child", n |-> e] >> \o r.evs, cache |-> r.cache, v |-> r.v]
              ELSE [evs |-> << [ev |-> "child", n |-> e] >> \o r.evs \o << [ev |-> "done", n |-> e] >>,
                    cache |-> [x \in DOMAIN r.cache \cup {CKey(e)} |->
                                  IF x = CKey(e) THEN r.v ELSE r.cache[x]],
                    v |-> r.v])
    ELSE IF e.t = "If" THEN
        LET rc == MEval(e.i, cache, env) IN
        IF IsErr(rc.v) \/ IsUnrep(rc.v) THEN rc
        ELSE LET rb == MEval(IF Truthy(rc.v) THEN e.th ELSE e.el, rc.cache, env) IN
             [evs |-> rc.evs \o rb.evs, cache |-> rb.cache, v |-> rb.v]
    ELSE IF e.t \in {"LogOr", "LogAnd"} THEN MEvalLazy(e.c, cache, env, e.t = "LogOr")
    ELSE LET ord == EvalOrder(e)
             ks  == Kids(e)
             r   == MEvalSeq([i \in 1..Len(ks) |-> ks[ord[i]]], cache, env)
             \* only the operations of the statement are logged as "op"
             me  == IF IsOp(e) THEN << [ev |-> "op", n |-> e] >> ELSE << >>
         IN IF r.err # NoneE THEN [evs |-> me \o r.evs, cache |-> r.cache, v |-> r.err]
            ELSE LET val(p) == r.vs[CHOOSE i \in 1..Len(ks) : ord[i] = p] IN
                 [evs |-> me \o r.evs, cache |-> r.cache,
                  v |-> Eval(WithKids(e, [p \in 1..Len(ks) |-> K(val(p))]), env)]

\* the complete event list of one top-level evaluation
TopEvents(e, cache, env) ==
    LET r == MEval(e, cache, env) IN
    [evs |-> << [ev |-> "begin", n |-> e] >> \o r.evs
             \o << IF IsErr(r.v) THEN [ev |-> "raise", val |-> r.v] ELSE [ev |-> "ret", val |-> r.v] >>,
     cache |-> r.cache]
\* one instance evaluates every expression of es once, in order
CanonicalEvents(es, env) ==
    LET RECURSIVE Go(_, _)
        Go(i, c) == IF i > Len(es) THEN << >>
                    ELSE LET r == TopEvents(es[i], c, env) IN r.evs \o Go(i + 1, r.cache)
    IN Go(1, EmptyBag)
AllReturned(evs) == \A i \in 1..Len(evs) : evs[i].ev # "raise"
=============================================================================
