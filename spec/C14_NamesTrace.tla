---------------------------- MODULE C14_NamesTrace ----------------------------
(***************************************************************************)
(* Stage (3) for the name half of C14 (V-beh, DESIGN 3.3): trace           *)
(* validation.  Every recorded history of calls on ONE real CCodeMapper    *)
(* and its copies is replayed through the state machine C14_CCodeNames,    *)
(* one TLC step per logged event; each event must be a step the property   *)
(* allows in the model state reached so far (HoistClause / RetClause of    *)
(* the model), the model's invariants are evaluated in every state         *)
(* reached, the projected state the driver logged must equal the model's,  *)
(* and the value each returned text yields in the compiled program         *)
(* (together with that mapper's assignments in list order) is judged       *)
(* against Eval (C14_CSem!JudgeC).                                         *)
(*                                                                         *)
(* The step relation is total: the first event that is not allowed ends    *)
(* the trace with that clause as its verdict (plus where it happened: the  *)
(* mapper's kind orig/copy/copym and whether the conflict is with an entry *)
(* the copy inherited), so every trace gets exactly one verdict line and   *)
(* TLC never stops on the first bad trace.                                 *)
(*                                                                         *)
(* One record = [id, hist, kids, ev]; events                               *)
(*   [k:"call",  m, i]                  mapper m is given hist[i].e        *)
(*   [k:"hoist", m, c, p, name, used, idx]   list entry idx appended:      *)
(*                                      name = text of child kids[c] whose *)
(*                                      text references `used`             *)
(*   [k:"ret",   m, used, proj, ce, r, pv]   text returned, list names,    *)
(*                                      program's / evaluator's values     *)
(*   [k:"exc",   m, ex]                 the mapper raised                  *)
(*   [k:"copy",  m, to, how, proj]      [k:"copym", m, to, name, c, proj]  *)
(***************************************************************************)
EXTENDS C14_CCodeNames, C14_CSem, Json, IOUtils
VARIABLES tid, l, curE, meta, verdict, vinfo, nsk

Recs == ndJsonDeserialize(IOEnv.TRACE_FILE)
Rec == Recs[tid]
Ev == Rec.ev[l]
Kid(c) == Rec.kids[c]
ProjOf(s) == [i \in 1..Len(s.list) |-> s.list[i].name]

Info(m, kind, inh) == [m |-> m, kind |-> kind, inh |-> inh]
NoInfo == Info(0, "", 0)

InvClause(s) ==
    IF ~NamesUniqueIn(s) THEN "inv-NamesUnique"
    ELSE IF ~DefinedBeforeUseIn(s) THEN "inv-DefinedBeforeUse"
    ELSE IF ~OncePerChildIn(s) THEN "inv-OncePerChild"
    ELSE IF ~PrefixCollisionFreeIn(s) THEN "inv-PrefixCollisionFree"
    ELSE IF ~ReferencesRightIn(s) THEN "inv-ReferencesRight"
    ELSE ""

\* is the conflicting entry one the mapper inherited when it was copied?
Inherited(m, child, name, clause) ==
    LET s == ms[m] k == meta[m].inh IN
    IF clause = "assigned-twice"
    THEN IF \E i \in 1..k : i <= Len(s.list) /\ s.list[i].child = child THEN 1 ELSE 0
    ELSE IF clause = "name-collision"
    THEN IF \E i \in 1..k : i <= Len(s.list) /\ s.list[i].name = name THEN 1 ELSE 0
    ELSE 0

Reject(clause, m, inh) ==
    /\ verdict' = clause
    /\ vinfo' = Info(m, IF m \in 1..Len(meta) THEN meta[m].kind ELSE "", inh)
    /\ UNCHANGED << ms, stack, cur, hist, tid, l, curE, meta, nsk >>
Advance == /\ l' = l + 1 /\ UNCHANGED << tid, stack, hist, verdict, vinfo >>

EvCall ==
    /\ Ev.k = "call"
    /\ IF cur # 0 \/ Ev.m \notin 1..Len(ms) \/ Ev.i \notin 1..Len(Rec.hist)
       THEN Reject("malformed-trace", 0, 0)
       ELSE /\ cur' = Ev.m /\ curE' = Rec.hist[Ev.i].e
            /\ Advance /\ UNCHANGED << ms, meta, nsk >>

EvHoist ==
    /\ Ev.k = "hoist"
    /\ IF Ev.m # cur THEN Reject("malformed-trace", 0, 0)
       ELSE LET s == ms[Ev.m] used == SeqToSet(Ev.used) IN
       IF Ev.c = 0 THEN Reject("entry-without-wrapper", Ev.m, 0)
       ELSE IF Ev.idx # Len(s.list) + 1 THEN Reject("state-mismatch", Ev.m, 0)
       ELSE LET child == Kid(Ev.c)
                cl == HoistClause(s, child, Ev.name, used) IN
       IF cl # "" THEN Reject(cl, Ev.m, Inherited(Ev.m, child, Ev.name, cl))
       ELSE LET s2 == HoistEff(s, child, Ev.p, Ev.name, used) IN
       IF InvClause(s2) # "" THEN Reject(InvClause(s2), Ev.m, 0)
       ELSE /\ ms' = [ms EXCEPT ![Ev.m] = s2]
            /\ Advance /\ UNCHANGED << cur, curE, meta, nsk >>

EvRet ==
    /\ Ev.k = "ret"
    /\ IF Ev.m # cur THEN Reject("malformed-trace", 0, 0)
       ELSE LET s == ms[Ev.m] cl == RetClause(s, curE, SeqToSet(Ev.used)) IN
       IF cl # "" THEN Reject(cl, Ev.m, 0)
       ELSE IF Ev.proj # ProjOf(s) THEN Reject("state-mismatch", Ev.m, 0)
       \* every wrapper the returned text should mention must at least be assigned
       ELSE IF Ev.ce = 1 THEN Reject("c-compile-error", Ev.m, 0)
       ELSE LET ja == JudgeAll(curE, "int", Ev.r, Ev.pv) IN
       IF ja.bad # "" THEN Reject(ja.bad, Ev.m, 0)
       ELSE /\ cur' = 0 /\ curE' = NoneE
            /\ nsk' = nsk + ja.skip
            /\ Advance /\ UNCHANGED << ms, meta >>

EvExc == /\ Ev.k = "exc" /\ Reject("mapper-raised", Ev.m, 0)

EvCopy ==
    /\ Ev.k = "copy"
    /\ IF cur # 0 \/ Ev.m \notin 1..Len(ms) \/ Ev.to # Len(ms) + 1 THEN Reject("malformed-trace", 0, 0)
       ELSE LET s2 == CopyHow(ms[Ev.m], Ev.how) IN
       IF Ev.proj # ProjOf(s2) THEN Reject("state-mismatch", Ev.m, 0)
       ELSE /\ ms' = Append(ms, s2)
            /\ meta' = Append(meta, [kind |-> "copy", inh |-> Len(s2.list)])
            /\ Advance /\ UNCHANGED << cur, curE, nsk >>

EvCopyMapped ==
    /\ Ev.k = "copym"
    /\ IF cur # 0 \/ Ev.m \notin 1..Len(ms) \/ Ev.to # Len(ms) + 1 \/ Ev.c = 0
       THEN Reject("malformed-trace", 0, 0)
       ELSE LET s2 == MappedEff(CopyOf(ms[Ev.m]), Ev.name, Kid(Ev.c)) IN
       IF Ev.proj # ProjOf(s2) THEN Reject("state-mismatch", Ev.m, 0)
       ELSE /\ ms' = Append(ms, s2)
            /\ meta' = Append(meta, [kind |-> "copym", inh |-> Len(s2.list)])
            /\ Advance /\ UNCHANGED << cur, curE, nsk >>

Finish ==
    /\ l = Len(Rec.ev) + 1
    /\ verdict' = "ACCEPT" /\ vinfo' = NoInfo
    /\ UNCHANGED << ms, stack, cur, hist, tid, l, curE, meta, nsk >>

TraceInit ==
    /\ tid \in 1..Len(Recs) /\ l = 1
    /\ ms = << EmptyMapper >> /\ stack = << >> /\ cur = 0 /\ hist = << >>
    /\ curE = NoneE /\ meta = << [kind |-> "orig", inh |-> 0] >>
    /\ verdict = "" /\ vinfo = NoInfo /\ nsk = 0

TraceNext ==
    /\ verdict = ""
    /\ \/ (l <= Len(Rec.ev) /\ (EvCall \/ EvHoist \/ EvRet \/ EvExc \/ EvCopy \/ EvCopyMapped))
       \/ Finish

\* exactly one line per trace
Report ==
    verdict = "" \/ PrintT(ToJson([id |-> Rec.id, v |-> verdict, l |-> l, m |-> vinfo.m,
                                   kind |-> vinfo.kind, inh |-> vinfo.inh, skip |-> nsk]))
=============================================================================
