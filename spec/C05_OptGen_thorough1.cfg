CONSTANTS
  OptPoolSel = "core"
  OptArgSel = "core"
  MaxLen = 2
  Steps = 1
  ClassSel = "all"
  FirstSel = "four"
  CollectMode = "bound"
  FbMode = "faithful"
  InlineHit = "identity"
INIT Init
NEXT Next
INVARIANT Explained
INVARIANT ShippedUsageFine
INVARIANT Emit
CHECK_DEADLOCK FALSE
