CONSTANT Bug = "product_identity"
INIT Init
NEXT Next
INVARIANT Refines
CHECK_DEADLOCK FALSE
