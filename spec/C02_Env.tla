------------------------------- MODULE C02_Env -------------------------------
(* The box of environments shared by the C02 generator and judge.  The     *)
(* generator prints it as JSON; the driver materialises it from there.     *)
EXTENDS Eval

FnV(n) == [k |-> "fn", name |-> n]
ObjV(n) == [k |-> "obj", name |-> n]
TupV(s) == [k |-> "tup", items |-> s]
Common(o) == [f |-> FnV("f"), g |-> FnV("g"), Y |-> IntV(4), N |-> IntV(-2), a0 |-> IntV(3),
              m |-> [k |-> "map", name |-> "m1"],
              t |-> TupV(<< IntV(10), IntV(20), FracV(5, 2) >>), o |-> ObjV(o)]
Envs == <<
  [x |-> IntV(2),      y |-> IntV(-3),     z |-> IntV(0),     b |-> BoolV(TRUE)]  @@ Common("o1"),
  [x |-> FracV(1, 2),  y |-> IntV(2),      z |-> IntV(-1),    b |-> BoolV(FALSE)] @@ Common("o1"),
  [x |-> FracV(-3, 2), y |-> FracV(2, 3),  z |-> IntV(3),     b |-> BoolV(TRUE)]  @@ Common("o2"),
  [x |-> IntV(0),      y |-> IntV(1),      z |-> IntV(-2),    b |-> BoolV(FALSE)] @@ Common("o1"),
  [x |-> IntV(3),      y |-> IntV(0),      z |-> FracV(1, 2), b |-> BoolV(TRUE)]  @@ Common("o2"),
  [x |-> FltV(3, 2),   y |-> IntV(-1),     z |-> IntV(2),     b |-> BoolV(FALSE)] @@ Common("o1")
>>
=============================================================================
