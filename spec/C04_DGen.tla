------------------------------ MODULE C04_DGen ------------------------------
(***************************************************************************)
(* Stage (1) for the dispatch half of C04.  TLC enumerates                  *)
(*   - user class hierarchies: chains of 1-3 classes below one of the      *)
(*     built-in bases (Expression, the abstract AlgebraicLeaf and Leaf,    *)
(*     Variable, Sum, CommonSubexpression, Call), every class decorated or not, setting its own       *)
(*     handler name or not (a fresh name / the base's name / exactly the   *)
(*     derived name), class names from the CamelCase pattern list and -    *)
(*     for one-class chains - every identifier over a small alphabet;      *)
(*     optionally with a mix-in class (own handler name or not) listed     *)
(*     before the parent in the bases of the first class, so that the      *)
(*     resolution order is not just the chain of first bases;              *)
(*   - every subset of the handler names along the resolution order as     *)
(*     the set the user mapper implements;                                 *)
(*   - foreign objects x sets of foreign handlers implemented;             *)
(* checks on the model that the transcription of Mapper.__call__ /         *)
(* rec_fallback (DispatchImpl, FallbackImpl) agrees with the meaning       *)
(* (Dispatch, RecFallback), that Dispatch is total, and prints every case. *)
(***************************************************************************)
EXTENDS C04_Dispatch, Json
CONSTANT Tier, EAFP     \* EAFP: negative control - the dispatcher with the design error of C04_Dispatch.RunImpl
VARIABLES obj, impl, phase, oc

\* ------------------------------------------------------------------ names
PatternNames == {
  << "F","o","o" >>, << "F","o","o","B","a","r" >>, << "H","T","T","P","N","o","d","e" >>,
  << "M","y","C","S","E","2" >>, << "A","B","c" >>, << "A" >>,
  << "F","o","o","2","B","a","r" >>, << "f","o","o","B","a","r" >>, << "F","O","O" >>,
  << "X","M","L","H","t","t","p","R","e","q","u","e","s","t" >>,
  << "N","o","d","e","_","X" >>, << "I","O","E","r","r","o","r" >>,
  << "g","e","t","H","T","T","P","R","e","s","p","o","n","s","e","C","o","d","e" >>,
  << "_","P","r","i","v" >>, << "A","B","c","D" >>, << "X","2","Y" >> }
Alphabet == {"A", "B", "c", "d", "2", "_"}
MaxNameLen == IF Tier = "quick" THEN 3 ELSE 5
SeqsOfLen(n) == [1..n -> Alphabet]
AlphabetNames == { s \in UNION { SeqsOfLen(n) : n \in 1..MaxNameLen } : IsIdent(s) }
NameAt(pos) == CASE pos = 1 -> << "F","o","o","B","a","r" >>
                 [] pos = 2 -> << "H","T","T","P","N","o","d","e" >>
                 [] pos = 3 -> << "M","y","C","S","E","2" >>

BaseHandler(base) ==
    CASE base = "Expression" -> ""
      [] base = "AlgebraicLeaf" -> "map_algebraic_leaf"
      [] base = "Leaf" -> "map_leaf"
      [] base = "Variable" -> "map_variable"
      [] base = "Sum" -> "map_sum"
      [] base = "CommonSubexpression" -> "map_common_subexpression"
      [] base = "Call" -> "map_call"
Custom(pos) == "map_custom" \o ToString(pos)
OwnChoices(base, pos, name, full) ==
    {"", Custom(pos)}
    \cup (IF full /\ BaseHandler(base) # "" THEN {BaseHandler(base)} ELSE {})
    \cup (IF full /\ pos = 1 THEN {DerivedHandler(name)} ELSE {})

MaxChain == 3
UCls(name, deco, own, mix) == [name |-> name, deco |-> deco, own |-> own, mix |-> mix]
MixinName == << "L","o","g","g","i","n","g","M","i","x","i","n" >>
\* classes that may be appended at position pos of a chain under base
ClassChoices(base, pos, first) ==
    IF pos = 1 /\ first = "patterns"
    THEN { UCls(nm, d, o, FALSE) : nm \in PatternNames, d \in BOOLEAN,
                           o \in {"", Custom(1), BaseHandler(base)} }
         \cup { UCls(nm, TRUE, DerivedHandler(nm), FALSE) : nm \in { << "F","o","o" >>, << "A","B","c" >> } }
    ELSE IF pos = 1 /\ first = "alphabet"
    THEN { UCls(nm, TRUE, "", FALSE) : nm \in AlphabetNames }
    ELSE IF pos = 1 /\ first = "mixin"
    \* a mix-in: derives from Expression only and is listed before the parent in the bases of
    \* the next class, so that the resolution order is not a chain of first bases
    THEN { UCls(MixinName, d, o, TRUE) : d \in BOOLEAN, o \in {"", "map_mixin"} }
    ELSE LET p == IF first = "mixin" THEN pos - 1 ELSE pos IN
         { UCls(NameAt(p), d, o, FALSE) :
             d \in BOOLEAN,
             o \in IF Tier = "quick" /\ pos = 3 THEN {""}
                    ELSE OwnChoices(base, pos, NameAt(p), TRUE) }

Universe(h) == { MRONames(Lineage(h))[k] : k \in 1..Len(Lineage(h)) } \ {""}

\* what the base class Mapper provides for everybody (stubs that raise NotImplementedError
\* or delegate to map_algebraic_leaf); the judge takes the real list from the driver
MapperStubs == {"map_variable", "map_call", "map_algebraic_leaf", "map_subscript", "map_lookup",
                "map_constant", "map_list", "map_tuple", "map_numpy_array", "map_nan",
                "map_quotient", "map_rational", "map_if_positive"}

ForeignHandlers == {"map_constant", "map_numpy_array", "map_list", "map_tuple", "map_multivector"}

\* ------------------------------------------------------------------ states
UserObj(base, chain, first) == [ty |-> "user", base |-> base, chain |-> chain, first |-> first]
ForeignObj(kind, reg) == [ty |-> "foreign", kind |-> kind, reg |-> reg]

\* ------------------------------------------------------------------ what the handlers do (round 5)
\* Every case carries an outcome assignment (C04_Dispatch: who / exc).  All cases exist with
\* "every handler returns"; on the core hierarchies (chains named by position, decorated, no own
\* name - so that the resolution order has as many distinct handler names as classes - and the
\* mix-in hierarchies above such chains) TLC also picks one handler on the resolution order (or
\* the overridden hook, or all of them) and the exception class it raises; the thorough tier adds
\* "all handlers raise" (the two classes a lookup uses itself) on every chain named by position.
Named(o)     == o.first = "mixin" \/ (o.first = "patterns" /\ o.chain[1].name = NameAt(1))
PlainFrom(o, i0) == \A i \in i0..Len(o.chain) : o.chain[i].deco /\ o.chain[i].own = ""
OcCore(o)    == (o.first = "patterns" /\ o.chain[1].name = NameAt(1) /\ PlainFrom(o, 1))
                \/ (o.first = "mixin" /\ PlainFrom(o, 2) /\ (Tier = "quick" => o.base # "Variable"))
\* exception classes for "one handler raises": the quick tier takes a class the dispatcher's
\* attribute lookup uses, one a cache lookup uses and the unrelated user class
OneExcs == IF Tier = "quick" THEN {"AttributeError", "KeyError", "UserError"} ELSE Excs
OcChoices(o, I) ==
    {OcAll}
    \cup (IF OcCore(o) THEN { [who |-> "*", exc |-> e] : e \in Excs }
                            \cup { [who |-> w, exc |-> e] : w \in I \cup {HookName}, e \in OneExcs }
          ELSE {})
    \cup (IF Tier # "quick" /\ Named(o)
          THEN { [who |-> "*", exc |-> e] : e \in {"AttributeError", "KeyError"} } ELSE {})
ForeignOcChoices(I) == {OcAll} \cup { [who |-> "*", exc |-> e] : e \in Excs }
                               \cup { [who |-> w, exc |-> e] : w \in I, e \in OneExcs }

Init ==
    \/ /\ phase = "build" /\ impl = {} /\ oc = OcAll
       /\ obj \in { UserObj(b, << >>, f) : b \in Bases, f \in {"patterns"} }
                  \cup { UserObj("Sum", << >>, "alphabet"), UserObj("Expression", << >>, "alphabet") }
                  \cup { UserObj(b, << >>, "mixin") : b \in {"Expression", "Variable", "Sum"} }
    \/ /\ phase = "done"
       /\ obj \in { ForeignObj(k, r) : k \in ForeignKinds, r \in BOOLEAN }
       /\ obj.reg => Category(obj.kind) = "other-number"
       /\ impl \in {{}, ForeignHandlers, {"map_multivector"}, {"map_constant", "map_tuple"}}
       /\ oc \in ForeignOcChoices(impl)

Extend ==
    /\ phase = "build" /\ Len(obj.chain) < MaxChain
    /\ obj.first \in {"patterns", "mixin"} \/ Len(obj.chain) = 0
    \* longer chains: the position decides the class name
    /\ (Len(obj.chain) >= 1 /\ obj.first = "patterns")
          => obj.chain[1].name = NameAt(1) /\ obj.chain[1].own # DerivedHandler(NameAt(1))
    /\ \E c \in ClassChoices(obj.base, Len(obj.chain) + 1, obj.first) :
          \* a decorated mix-in brings a field-less __init__: the class below it must be decorated
          /\ (Len(obj.chain) = 1 /\ obj.chain[1].mix /\ obj.chain[1].deco) => c.deco
          /\ obj' = [obj EXCEPT !.chain = Append(@, c)]
    /\ UNCHANGED << impl, phase, oc >>
Finish ==
    /\ phase = "build" /\ Len(obj.chain) >= 1 /\ ~obj.chain[Len(obj.chain)].mix
    /\ \E H \in SUBSET Universe(obj) : impl' = H /\ oc' \in OcChoices(obj, H)
    /\ phase' = "done" /\ UNCHANGED obj
Next == Extend \/ Finish

Complete == phase = "done"

\* ------------------------------------------------------------------ checked on the model
\* the code's algorithm computes the handler the statement names, with and without the
\* base-class stubs in the implemented set
ImplRefinesMeaning ==
    (Complete /\ obj.ty = "user") =>
        LET L == Lineage(obj) IN
        \A I \in {impl, impl \cup MapperStubs} :
            /\ DispatchImpl(L, I) = Dispatch(L, I)
            /\ FallbackImpl(L, I) = RecFallback(L, I)
\* Dispatch is total and lands on something the mapper has, the nearest one
DispatchSane ==
    (Complete /\ obj.ty = "user") =>
        LET L == Lineage(obj)  nm == MRONames(L)  d == Dispatch(L, impl) IN
        /\ d = "unsupported" <=> \A k \in 1..Len(nm) : nm[k] \notin impl
        /\ d # "unsupported" =>
              \E k \in 1..Len(nm) : nm[k] = d /\ d \in impl /\ \A j \in 1..(k - 1) : nm[j] \notin impl
        /\ \A k \in 1..Len(L) : L[k].deco /\ L[k].own = "" => EffName(L, k) = DerivedHandler(L[k].name)
\* what the handlers do: the run of the code's algorithm invokes exactly the handler the statement
\* names, once, and ends as that handler ends - whatever it raises.  With EAFP = TRUE (lookup and
\* call under one "except AttributeError") TLC must find this violated (C04_DGen_neg_eafp.cfg).
OutcomeRefinesMeaning ==
    Complete =>
        IF obj.ty = "user"
        THEN LET L == Lineage(obj) IN
             /\ RunImpl(L, impl, oc, EAFP) = Applied(Dispatch(L, impl), oc)
             /\ FallbackRunImpl(L, impl, oc) = Applied(RecFallback(L, impl), oc)
        ELSE ForeignRunImpl(obj.kind, obj.reg, impl, oc, EAFP)
                 = Applied(DispatchForeign(obj.kind, obj.reg, impl), oc)
ForeignSane ==
    (Complete /\ obj.ty = "foreign") =>
        DispatchForeign(obj.kind, obj.reg, impl) \in ForeignHandlers \cup {"error", "SKIP"}

\* known answers of the name derivation (from the statement's examples and the usual convention)
ASSUME DerivedHandler(<< "F","o","o","B","a","r" >>) = "map_foo_bar"
ASSUME DerivedHandler(<< "H","T","T","P","N","o","d","e" >>) = "map_http_node"
ASSUME DerivedHandler(<< "M","y","C","S","E","2" >>) = "map_my_cse2"
ASSUME DerivedHandler(<< "A","B","c" >>) = "map_a_bc"
ASSUME DerivedHandler(<< "A" >>) = "map_a"
ASSUME DerivedHandler(B_CSE.name) = "map_common_subexpression"
ASSUME DerivedHandler(B_AlgebraicLeaf.name) = "map_algebraic_leaf"

\* the assignment as a table handler name -> outcome, for the driver (which only looks it up)
OcTable == [h \in impl \cup {HookName} |-> OcOf(oc, h)]
Emit == Complete =>
    PrintT(ToJson(
      IF obj.ty = "user"
      THEN [ty |-> "user", base |-> obj.base,
            chain |-> [i \in 1..Len(obj.chain) |->
                          [name |-> obj.chain[i].name, deco |-> obj.chain[i].deco,
                           own |-> obj.chain[i].own, mix |-> obj.chain[i].mix]],
            impl |-> impl, oc |-> oc, ocs |-> OcTable]
      ELSE [ty |-> "foreign", kind |-> obj.kind, reg |-> obj.reg, impl |-> impl,
            oc |-> oc, ocs |-> OcTable]))

ASSUME PrintT(ToJson([runs |-> Runs]))
=============================================================================
