---------------------------- MODULE C16_UnifyImpl ----------------------------
(***************************************************************************)
(* C16, A-layer: pymbolic/mapper/unifier.py transcribed AS THE CODE HAS IT *)
(* (UnifierBase.map_*, UnidirectionalUnifier.map_commut_assoc, unify_map,  *)
(* UnificationRecord.unify, unify_many, primitives.flattened_sum/_product).*)
(* TLC compares it with the meaning (C16_Unify.tla) in C16_Gen.tla before  *)
(* any code runs; the judge uses it only for the drift report.  It never   *)
(* decides a verdict about the implementation.                             *)
(*                                                                         *)
(* A unification record is [l |-> lmap, r |-> rmap], both functions        *)
(* name -> expression (the equations list adds nothing to lmap here: every *)
(* equation the unidirectional unifier creates has a Variable on the left).*)
(* Lists of records are sequences in the code's order.                     *)
(* Only defined for a declared candidate set C (lhs_mapping_candidates not *)
(* None; rhs_mapping_candidates = None, force_var_match = True).           *)
(***************************************************************************)
EXTENDS C16_Unify
\* "none" = the code as it is; any other value plants one realistic defect in the
\* transcription (negative controls: TLC must then refute ImplSound / ImplComplete)
CONSTANT Bug

\* concatenation of a sequence of sequences; divide and conquer keeps TLC's evaluation
\* stack logarithmic in the length (partitions of 5 leftovers are already 150 long)
ConcatAll(ss) == LET RECURSIVE Go(_, _)
                     Go(lo, hi) == IF lo > hi THEN << >>
                                   ELSE IF lo = hi THEN ss[lo]
                                   ELSE LET mid == (lo + hi) \div 2
                                        IN Go(lo, mid) \o Go(mid + 1, hi)
                 IN Go(1, Len(ss))

EmptyMap == [x \in {} |-> Hole]
URec(l, r) == [l |-> l, r |-> r]
EmptyRec == URec(EmptyMap, EmptyMap)

\* pymbolic's == on trees: structural, numbers by value
RECURSIVE PEq(_, _)
PEq(a, b) ==
    IF a.t = "Var" THEN b.t = "Var" /\ a.name = b.name
    ELSE SameHead(a, b) /\ \A i \in 1..Len(KidsW(a)) : PEq(KidsW(a)[i], KidsW(b)[i])

\* Python's truth value of an expression tree (bool(e) = not is_zero(e)): numbers by value,
\* and the __bool__ methods of Sum, Product and the quotient classes; everything else is true
RECURSIVE TruthE(_)
TruthE(e) ==
    CASE e.t = "Const" -> e.v.n # 0
      [] e.t = "Sum" -> IF Len(e.c) = 1 THEN TruthE(e.c[1]) ELSE TRUE
      [] e.t = "Product" -> \A i \in 1..Len(e.c) : TruthE(e.c[i])
      [] e.t \in {"Quotient", "FloorDiv", "Remainder"} -> TruthE(e.a)
      [] OTHER -> TRUE
IsZeroE(e) == ~TruthE(e)

\* unify_map: None iff some common name is bound to different values ("name in map1" is a
\* MEMBERSHIP test; Bug = "truthy" plants the classical slip of testing the known binding by
\* its truth value instead: a falsy earlier binding then counts as absent and is overwritten)
UnifyMapOK(m1, m2) ==
    CASE Bug = "consistency" -> TRUE                            \* clash check dropped
      [] Bug = "norepeat"    -> DOMAIN m1 \cap DOMAIN m2 = {}   \* repeated variable refused
      [] Bug = "truthy"      -> \A n \in DOMAIN m1 \cap DOMAIN m2 :
                                   TruthE(m1[n]) => PEq(m1[n], m2[n])
      [] OTHER -> \A n \in DOMAIN m1 \cap DOMAIN m2 : PEq(m1[n], m2[n])
UnifyMapRes(m1, m2) ==    \* the merged table: map1's entries win
    IF Bug = "truthy"
    THEN [n \in DOMAIN m1 \cup DOMAIN m2 |->
            IF n \in DOMAIN m1 /\ (n \notin DOMAIN m2 \/ TruthE(m1[n])) THEN m1[n] ELSE m2[n]]
    ELSE m1 @@ m2
\* UnificationRecord.unify -> << >> (None) or << record >>
UnifyRec(u1, u2) ==
    IF UnifyMapOK(u1.l, u2.l) /\ UnifyMapOK(u1.r, u2.r)
    THEN << URec(UnifyMapRes(u1.l, u2.l), UnifyMapRes(u1.r, u2.r)) >> ELSE << >>
UnifyMany(us, u) == ConcatAll([i \in 1..Len(us) |-> UnifyRec(us[i], u)])

\* unification_record_from_equation -> << >> (None) or << record >>
RecFromEq(lhs, rhs, C) ==
    IF lhs.t \in {"Tup", "List"} \/ rhs.t \in {"Tup", "List"} THEN << >>
    ELSE IF ~(lhs.t = "Var" \/ rhs.t = "Var") THEN << >>              \* force_var_match
    ELSE IF lhs.t = "Var" /\ lhs.name \notin C THEN << >>
    ELSE << URec(IF lhs.t = "Var" THEN lhs.name :> rhs ELSE EmptyMap,
                 IF rhs.t = "Var" THEN rhs.name :> lhs ELSE EmptyMap) >>

\* primitives.flattened_sum / flattened_product (the "factory")
\* primitives.is_zero(e) = not bool(e), with the __bool__ methods of Sum, Product and the
\* quotient classes (everything else is true); is_zero(e - 1) can only hold for a number
\* (TruthE / IsZeroE are defined above, next to unify_map)
IsOneE(e)  == e.t = "Const" /\ e.v.n = e.v.d
Factory(kind, items) ==
    LET RECURSIVE Go(_, _)
        \* returns [z |-> absorbed by a zero factor, d |-> done list]
        Go(queue, done) ==
            IF queue = << >> THEN [z |-> FALSE, d |-> done]
            ELSE LET it == Head(queue) rest == Tail(queue) IN
                 IF kind = "Sum" /\ IsZeroE(it) THEN Go(rest, done)
                 ELSE IF kind = "Product" /\ IsZeroE(it) THEN [z |-> TRUE, d |-> done]
                 ELSE IF kind = "Product" /\ IsOneE(it) THEN Go(rest, done)
                 ELSE IF it.t = kind THEN Go(rest \o it.c, done)
                 ELSE Go(rest, Append(done, it))
        r == Go(items, << >>)
    IN  IF r.z THEN KI(0)
        ELSE IF Len(r.d) = 0 THEN KI(IF kind = "Sum" THEN 0 ELSE 1)
        ELSE IF Len(r.d) = 1 THEN r.d[1]
        ELSE N(kind, r.d)

\* iteration order of a Python set of small non-negative ints: ascending
SortedSeq(S) ==
    LET RECURSIVE Go(_)
        Go(T) == IF T = {} THEN << >>
                 ELSE LET m == CHOOSE x \in T : \A y \in T : x <= y IN << m >> \o Go(T \ {m})
    IN Go(S)
\* itertools.combinations(s, k): lexicographic by position
RECURSIVE Combs(_, _)
Combs(s, k) ==
    IF k = 0 THEN << << >> >>
    ELSE IF Len(s) < k THEN << >>
    ELSE LET with == Combs(Tail(s), k - 1) IN
         [i \in 1..Len(with) |-> << Head(s) >> \o with[i]] \o Combs(Tail(s), k)
\* subsets(s, max_size): sizes 1..max_size
SubsetsUpTo(S, mx) ==
    ConcatAll([k \in 1..(IF mx < 0 THEN 0 ELSE mx) |-> Combs(SortedSeq(S), k)])
\* partitions(s, k): sequence of k-sequences of sets, in the code's order
RECURSIVE Partitions(_, _)
Partitions(S, k) ==
    IF k = 1 THEN << << S >> >>
    ELSE IF k < 1 THEN << >>          \* the code recurses on, but never yields
    ELSE LET subs == SubsetsUpTo(S, Cardinality(S) - k + 1) IN
         ConcatAll([i \in 1..Len(subs) |->
            LET sub == SeqToSet(subs[i])
                rest == Partitions(S \ sub, k - 1)
            IN [j \in 1..Len(rest) |-> << sub >> \o rest[j]]])

\* pytools.generate_permutations(range(n)) (order irrelevant for what we compare)
RECURSIVE Perms(_)
Perms(s) ==
    IF Len(s) <= 1 THEN << s >>
    ELSE LET sub == Perms(Tail(s)) IN
         ConcatAll([k \in 1..Len(sub) |->
            [i \in 1..(Len(sub[k]) + 1) |->
                SubSeq(sub[k], 1, i - 1) \o << Head(s) >> \o SubSeq(sub[k], i, Len(sub[k]))]])

Unpack1(ix) == IF ix.t = "Tup" /\ Len(ix.c) = 1 THEN ix.c[1] ELSE ix
Bin2Kinds == BinKinds \ {"Sub"}

RECURSIVE Rec(_, _, _, _), RecList(_, _, _, _), MCA(_, _, _, _), PermSum(_, _, _, _)

\* map_list / map_tuple body (after the type/length test): left to right, stop when empty
RecList(es, os, us, C) ==
    LET RECURSIVE Go(_, _)
        Go(i, cur) == IF i > Len(es) THEN cur
                      ELSE LET nx == Rec(es[i], os[i], cur, C) IN
                           IF nx = << >> THEN << >> ELSE Go(i + 1, nx)
    IN Go(1, us)

\* UnifierBase.map_sum, inherited for bitwise / logical / min / max
PermSum(e, o, us, C) ==
    IF o.t # e.t \/ Len(e.c) # Len(o.c) THEN << >>
    ELSE LET n == Len(e.c)
             ps == Perms([i \in 1..n |-> i])
         IN ConcatAll([k \in 1..Len(ps) |->
                RecList(e.c, [i \in 1..n |-> o.c[ps[k][i]]], us, C)])
            \* no structural match -> treat_mismatch -> [] (= the empty concatenation)

\* UnidirectionalUnifier.map_commut_assoc
MCA(e, o, us, C) ==
    IF o.t # e.t THEN << >>
    ELSE
    LET IsPlain(ch) == ch.t = "Var" /\ ch.name \in C
        plain  == SelectSeq(e.c, LAMBDA ch : IsPlain(ch))
        nonvar == SelectSeq(e.c, LAMBDA ch : ~IsPlain(ch))
        no == Len(o.c)
        \* unification_candidates[i] = [(j, result)] for the non-empty results
        cand == [i \in 1..Len(nonvar) |-> [j \in 1..no |-> Rec(nonvar[i], o.c[j], us, C)]]
        TryPart(urec, part) ==       \* << >> if some binding clashes, else << record >>
            LET RECURSIVE Go(_, _)
                Go(k, cur) ==
                    IF k > Len(plain) THEN << cur >>
                    ELSE LET items == [q \in 1..Cardinality(part[k]) |->
                                          o.c[SortedSeq(part[k])[q]]]
                             nr == RecFromEq(plain[k], Factory(e.t, items), C)
                             res == UnifyRec(cur, nr[1])
                         IN IF res = << >> THEN << >> ELSE Go(k + 1, res[1])
            IN Go(1, urec)
        MatchPlain(urec, left) ==
            IF Len(plain) = 0 /\ left = {} THEN << urec >>
            ELSE LET parts == Partitions(left, Len(plain))
                     tried == [pi \in 1..Len(parts) |-> TryPart(urec, parts[pi])]
                     good  == {pi \in 1..Len(parts) : tried[pi] # << >>}
                 IN IF Len(nonvar) # 0
                    THEN \* "yield result; return": only the first partition that works
                         (IF good = {} THEN << >>
                          ELSE tried[CHOOSE pi \in good : \A pj \in good : pi <= pj])
                    ELSE \* urecs merged in here, every partition that works
                         ConcatAll([pi \in 1..Len(parts) |->
                            IF tried[pi] = << >> THEN << >>
                            ELSE IF Bug = "nomerge" THEN tried[pi]
                            ELSE UnifyMany(us, tried[pi][1])])
        RECURSIVE MatchChildren(_, _, _)
        MatchChildren(urec, idx, left) ==
            IF idx > Len(nonvar) THEN MatchPlain(urec, left)
            ELSE ConcatAll([j \in 1..no |->
                    IF j \notin left \/ cand[idx][j] = << >> THEN << >>
                    ELSE LET nus == UnifyMany(cand[idx][j], urec) IN
                         ConcatAll([q \in 1..Len(nus) |->
                            MatchChildren(nus[q], idx + 1,
                                          IF Bug = "leftover" THEN left ELSE left \ {j})])])
    IN MatchChildren(EmptyRec, 1, 1..no)

Rec(e, o, us, C) ==
    CASE e.t = "Const" ->
            IF o.t = "Const" /\ e.v.n = o.v.n /\ e.v.d = o.v.d THEN us ELSE << >>
      [] e.t = "Var" ->
            LET nr == RecFromEq(e, o, C) IN
            IF nr = << >>
            THEN (IF o.t = "Var" /\ o.name = e.name /\ e.name \notin C THEN us ELSE << >>)
            ELSE UnifyMany(us, nr[1])
      [] e.t = "Call" ->
            IF o.t # "Call" THEN << >>
            ELSE Rec(e.f, o.f, Rec(N("Tup", e.c), N("Tup", o.c), us, C), C)
      [] e.t = "Sub" ->
            IF o.t # "Sub" THEN << >>
            ELSE Rec(e.a, o.a, Rec(Unpack1(e.b), Unpack1(o.b), us, C), C)
      [] e.t = "Look" ->
            IF o.t # "Look" THEN << >> ELSE IF e.name # o.name THEN << >>
            ELSE Rec(e.a, o.a, us, C)
      [] e.t \in ACKinds -> MCA(e, o, us, C)
      [] e.t \in CKinds  -> PermSum(e, o, us, C)
      [] e.t \in Bin2Kinds ->
            IF o.t # e.t THEN << >> ELSE Rec(e.a, o.a, Rec(e.b, o.b, us, C), C)
      [] e.t \in UnKinds ->
            IF o.t # e.t THEN << >> ELSE Rec(e.a, o.a, us, C)
      [] e.t = "Cmp" ->
            IF o.t # "Cmp" THEN << >> ELSE IF e.op # o.op THEN << >>
            ELSE Rec(e.a, o.a, Rec(e.b, o.b, us, C), C)
      [] e.t = "If" ->
            IF o.t # "If" THEN << >>
            ELSE Rec(e.i, o.i, Rec(e.th, o.th, Rec(e.el, o.el, us, C), C), C)
      [] e.t \in {"Tup", "List"} ->
            IF o.t # e.t THEN << >> ELSE IF Len(e.c) # Len(o.c) THEN << >>
            ELSE RecList(e.c, o.c, us, C)

\* UnidirectionalUnifier(C)(p, t): the sequence of binding tables (lmap) returned
UnifyImpl(p, t, C) ==
    LET us == Rec(p, t, << EmptyRec >>, C) IN [i \in 1..Len(us) |-> us[i].l]
=============================================================================
