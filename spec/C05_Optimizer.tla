---------------------------- MODULE C05_Optimizer ----------------------------
(***************************************************************************)
(* A-layer for the second half of C05: pymbolic.mapper.optimize.           *)
(* optimize_mapper as an abstract rewriting system, transcribed from the   *)
(* code (optimize.py: _VarArgsRemover, _CacheKeyInliner, _RecInliner and   *)
(* the lru_cache of module ASTs that these NodeTransformers rewrite IN     *)
(* PLACE).                                                                 *)
(*                                                                         *)
(* Options  o = [da, dk, ir, ic, ik]  (drop_args, drop_kwargs, inline_rec, *)
(* inline_cache, inline_get_cache_key).                                    *)
(*                                                                         *)
(* Process state P (what earlier optimisations in the same interpreter     *)
(* left behind in the cached method ASTs):                                 *)
(*   ad, kd   every call site has lost its *args / **kwargs                *)
(*   key      what stands where __call__ computes its key: "call" (still   *)
(*            self.get_cache_key(..)), "stock" (the 4-tuple inlined),      *)
(*            "custom2" (a user key (type(expr), expr) inlined)            *)
(*   site     what a former `self.rec(child, *args, **kwargs)` looks like: *)
(*            a sequence over {"C","R","D"}: C = look-aside on the fixed   *)
(*            key (type(expr), expr) wrapped around the rest, R = still a  *)
(*            call of rec, D = dispatch inlined (no table at all)          *)
(* Signatures are rebuilt from the pristine FunctionDef every time, so     *)
(* whether a method still accepts *args depends on the current options     *)
(* only - call sites and signatures can therefore disagree after a second  *)
(* optimisation (Dev_StaleAST).                                            *)
(*                                                                         *)
(* A class to be optimized: [name, m (its mapper kind in C05_Fresh),       *)
(* args (do its handlers use extra arguments), stock (does it keep         *)
(* CachedMapper.get_cache_key)] and optionally base (the stock mapper it   *)
(* derives from) and ov (the handlers it overrides with marking bodies).   *)
(*                                                                         *)
(* Round 2 - METHOD COLLECTION.  optimize_mapper rebuilds the class from   *)
(* source: for every attribute name of the class (dir) it needs the        *)
(* definition of the function BOUND to that name and, where the            *)
(* function's __name__ differs (a base-class alias such as map_product =   *)
(* map_sum), emits a copy under the alias name.  Which function is bound   *)
(* is Python's attribute lookup (C05_Fresh!OwnBody): the class's own       *)
(* override serves only its own name, the aliases in the base keep the     *)
(* base's function.  Collected(mode, cls, n) is the body the rebuilt class *)
(* has for name n: mode "bound" is the design (= the code: the source of   *)
(* the bound function is fetched through its __qualname__), mode "byname"  *)
(* reuses whatever definition was already collected under the function's   *)
(* __name__ - the own override then captures every alias of the base       *)
(* function it shadows (negative control C05_OptGen_Buggy_CollectByName).  *)
(*                                                                         *)
(* OCall interprets a top-level call on an instance of the rewritten class *)
(* and produces result + logged events, so that TLC can run the memo       *)
(* machine on them exactly as for C05_MemoImpl.                            *)
(***************************************************************************)
EXTENDS C05_Pool

\* ---- base-class alias tables: attribute name |-> __name__ of the function bound to it
IdentAliases == [
    map_product |-> "map_sum", map_floor_div |-> "map_quotient", map_remainder |-> "map_quotient",
    map_right_shift |-> "map_left_shift", map_bitwise_xor |-> "map_bitwise_or",
    map_bitwise_and |-> "map_bitwise_or", map_logical_not |-> "map_bitwise_not",
    map_logical_or |-> "map_bitwise_or", map_logical_and |-> "map_bitwise_or",
    map_max |-> "map_min", rec |-> "__call__"]
CombineAliases == [
    map_product |-> "map_sum", map_floor_div |-> "map_quotient", map_remainder |-> "map_quotient",
    map_right_shift |-> "map_left_shift", map_bitwise_or |-> "map_sum", map_bitwise_xor |-> "map_sum",
    map_bitwise_and |-> "map_sum", map_logical_not |-> "map_bitwise_not",
    map_logical_and |-> "map_sum", map_logical_or |-> "map_sum", map_max |-> "map_sum",
    map_min |-> "map_sum", map_tuple |-> "map_list", rec |-> "__call__"]
CollectorAliases == [n \in {"map_variable", "map_wildcard", "map_dot_wildcard", "map_star_wildcard",
                            "map_function_symbol"} |-> "map_constant"] @@ CombineAliases
AliasesOf(cls) ==
    IF "base" \notin DOMAIN cls THEN [n \in {} |-> ""]
    ELSE CASE cls.base = "identity"  -> IdentAliases
           [] cls.base = "combine"   -> CombineAliases
           [] cls.base = "collector" -> CollectorAliases
           [] OTHER -> [n \in {} |-> ""]
ClsOv(cls) == IF "ov" \in DOMAIN cls THEN SeqToSet(cls.ov) ELSE {}
\* __name__ of the function that attribute n of the class is bound to
BoundName(cls, n) == IF n \in ClsOv(cls) THEN n
                     ELSE IF n \in DOMAIN AliasesOf(cls) THEN AliasesOf(cls)[n] ELSE n
\* the body attribute n has in the ORIGINAL class: << "own" | "base", function name >>
BoundBody(cls, n) == << IF n \in ClsOv(cls) THEN "own" ELSE "base", BoundName(cls, n) >>
\* the body the rebuilt class has for n
Collected(mode, cls, n) ==
    IF mode = "bound" THEN BoundBody(cls, n)
    ELSE << IF BoundName(cls, n) \in ClsOv(cls) THEN "own" ELSE "base", BoundName(cls, n) >>
\* every attribute name that matters: the handlers of all node kinds, rec and __call__
NodeKinds == {"Var", "Const", "Cmp", "If", "Call", "CallKw", "Look", "CSE"}
                \cup (NaryKinds \ {"Slice"}) \cup BinKinds \cup UnKinds
HandlerNames == { MethodOf(t) : t \in NodeKinds } \cup {"rec", "__call__"}
CollectionFaithful(mode, cls) == \A n \in HandlerNames : Collected(mode, cls, n) = BoundBody(cls, n)
\* "" or the own function that serves node e in the rebuilt class
RebuiltBody(mode, cls, e) ==
    LET b == Collected(mode, cls, MethodOf(e.t)) IN IF b[1] = "own" THEN b[2] ELSE ""
MkOf(cls) == LET b == [m |-> cls.m, scope |-> "all", ov |-> IF "ov" \in DOMAIN cls THEN cls.ov ELSE << >>]
             IN IF "val" \in DOMAIN cls THEN [val |-> cls.val] @@ b ELSE b   \* round 7: "nil" classes

Opt(da, dk, ir, ic, ik) == [da |-> da, dk |-> dk, ir |-> ir, ic |-> ic, ik |-> ik]
AllOpts == { Opt(a, b, c, d, e) : a, b, c, d, e \in BOOLEAN }
P0 == [ad |-> FALSE, kd |-> FALSE, key |-> "call", site |-> << "R" >>]

ApplySite(s, o) ==
    LET n == Len(s)  leaf == s[n]  front == SubSeq(s, 1, n - 1) IN
    IF leaf = "D" THEN s
    ELSE front \o (IF o.ic THEN << "C" >> ELSE << >>) \o (IF o.ir THEN << "D" >> ELSE << "R" >>)

KeyExprOf(cls) == IF cls.stock THEN "stock" ELSE "custom2"

Optimize(P, cls, o) ==
    [ad |-> P.ad \/ o.da, kd |-> P.kd \/ o.dk,
     key |-> IF P.key # "call" THEN P.key ELSE IF o.ik THEN KeyExprOf(cls) ELSE "call",
     site |-> ApplySite(P.site, o)]

\* the semantics of the class produced by the LAST step of seq (a sequence of
\* [cls, o]) in a process that performed the earlier steps before
RECURSIVE StateAfter(_, _)
StateAfter(seq, n) == IF n = 0 THEN P0 ELSE Optimize(StateAfter(seq, n - 1), seq[n].cls, seq[n].o)
SemOf(seq) ==
    LET n == Len(seq)  P == StateAfter(seq, n)  o == seq[n].o  cls == seq[n].cls IN
    [sigA |-> ~o.da, sigK |-> ~o.dk, callA |-> ~P.ad, callK |-> ~P.kd, site |-> P.site,
     key |-> IF P.key = "call" THEN "call-" \o KeyExprOf(cls) ELSE P.key,
     cls |-> cls, collect |-> "bound", fb |-> "faithful", ihit |-> "identity"]
SemOfMode(seq, mode) == [SemOf(seq) EXCEPT !.collect = mode]
\* round 4: fb is the dispatch-path mode of C05_MemoImpl!HandlerArgs (the rewritten class
\* reaches handlers through CachedMapper.__call__ or the inlined dispatch; both leave the
\* class-hierarchy search to rec_fallback)
SemOfModes(seq, mode, fb) == [SemOf(seq) EXCEPT !.collect = mode, !.fb = fb]

\* round 7: ihit is the HIT TEST of the look-aside that inline_cache writes around a former
\* rec site (C05_MemoImpl!HitOutcome): "identity" = against the sentinel (design = code);
\* "notnone" / "truthy" = the stored RESULT is asked whether it is None / true, so a result
\* that looks like nothing is recomputed (and stored again) at every inlined site
SemOfHit(seq, mode, fb, ihit) == [SemOf(seq) EXCEPT !.collect = mode, !.fb = fb, !.ihit = ihit]

EffArgs(sem, a) == Args(IF sem.callA THEN a.pos ELSE << >>, IF sem.callK THEN a.kw ELSE << >>)
SigFits(sem, a) == (sem.sigA \/ Len(a.pos) = 0) /\ (sem.sigK \/ Len(a.kw) = 0)

\* does computing the top-level key blow up, and with what
KeyError(sem, a) ==
    CASE sem.key \in {"call-stock", "stock"} ->
            IF ~sem.sigA \/ ~sem.sigK THEN "NameError" ELSE ""
      [] sem.key = "call-custom2" ->
            IF EffArgs(sem, a) # NoArgs THEN "TypeError" ELSE ""
      [] OTHER -> ""
\* the inlined look-aside key (type(expr), expr): the same as a user key of that shape,
\* never the same as the stock four-component key
Key2(e) == [tag |-> TypeTag(e), e |-> Canon(e), two |-> TRUE]
TopKey(sem, e, a) ==
    CASE sem.key = "call-stock" -> KeyOf("pyeq", e, EffArgs(sem, a))
      [] sem.key = "stock"      -> KeyOf("pyeq", e, a)
      [] OTHER                  -> Key2(e)

RECURSIVE OSite(_, _, _, _, _, _), OHandler(_, _, _, _, _), OFull(_, _, _, _, _)
\* st = [tab, evs, err]; every operator returns [tab, evs, r]
OHandler(sem, st, mk, e, a0) ==
    LET a  == HandlerArgs(sem.fb, mk, e, a0)     \* what the handler receives (round 4)
        k  == KeyOf("ideal", e, a)
        ks == RecKids(mk, e)
        ea == EffArgs(sem, a)
        RECURSIVE Go(_, _, _)
        Go(s, i, rs) ==
            IF i > Len(ks) THEN [s |-> s, rs |-> rs]
            ELSE LET c == OSite(sem, s, mk, ks[i], ea, sem.site) IN
                 Go([tab |-> c.tab, evs |-> c.evs], i + 1, Append(rs, c.r))
        g == Go([tab |-> st.tab, evs |-> Append(st.evs, [ev |-> "H", k |-> k])], 1, << >>)
    IN [tab |-> g.s.tab, evs |-> Append(g.s.evs, [ev |-> "X", k |-> k, ok |-> TRUE]),
        r |-> CombineBody(mk, e, a, g.rs, RebuiltBody(sem.collect, sem.cls, e))]

OFull(sem, st, mk, e, a) ==
    LET ik == TopKey(sem, e, a) IN
    IF ik \in DOMAIN st.tab THEN [tab |-> st.tab, evs |-> st.evs, r |-> st.tab[ik]]
    ELSE LET h == OHandler(sem, st, mk, e, EffArgs(sem, a)) IN
         [tab |-> (ik :> h.r) @@ h.tab, evs |-> h.evs, r |-> h.r]

OSite(sem, st, mk, e, a, t) ==
    IF t[1] = "R" THEN OFull(sem, st, mk, e, a)
    ELSE IF t[1] = "D" THEN OHandler(sem, st, mk, e, a)
    ELSE LET k2 == Key2(e) IN
         IF k2 \in DOMAIN st.tab /\ HitOutcome(sem.ihit, st.tab[k2]) = "hit"
         THEN [tab |-> st.tab, evs |-> st.evs, r |-> st.tab[k2]]
         ELSE LET c == OSite(sem, st, mk, e, a, Tail(t)) IN
              [tab |-> (k2 :> c.r) @@ c.tab, evs |-> c.evs, r |-> c.r]

\* one top-level call; mk is the UNOPTIMIZED class's meaning (the counterpart)
OCall(sem, tab, e, a) ==
    LET mk == MkOf(sem.cls)
        k  == KeyOf("ideal", e, a)
        f  == Fresh(mk, e, a)
        ke == KeyError(sem, a)
    IN IF ke # "" THEN [tab |-> tab, r |-> ErrR(ke),
                        evs |-> << [ev |-> "R", k |-> k, r |-> ErrR(ke), f |-> f] >>]
       ELSE LET c == OFull(sem, [tab |-> tab, evs |-> << >>], mk, e, a) IN
            [tab |-> c.tab, r |-> c.r,
             \* (round 7) a traversal that returns nothing is observed through the keys it touches
             evs |-> Append(c.evs, IF mk.m = "walk"
                                   THEN [ev |-> "W", k |-> k, F |-> TouchedKeys(mk, e, a)]
                                   ELSE [ev |-> "R", k |-> k, r |-> c.r, f |-> f])]

(***************************************************************************)
(* Named deviations: why a rewritten class may leave the property, as the  *)
(* rewriting system predicts it.  clause is the memo machine's rejection   *)
(* clause, a the failing call's arguments, argset the argument tuples used   *)
(* so far, coll whether ==-equal differently typed    *)
(* subtrees occurred.                                                      *)
(***************************************************************************)
OptDeviationFor(sem, clause, a, argset, coll) ==
    IF KeyError(sem, a) = "NameError" THEN
        (IF clause = "not-transparent" THEN "DropBreaksStockKey" ELSE "")
    ELSE IF \E b \in argset \cup {a} : b # EffArgs(sem, b) THEN "StaleASTDropsArgs"
    ELSE IF clause = "computed-twice" THEN
        (IF sem.site = << "D" >> THEN "InlineRecBypassesCache"
         ELSE IF sem.site[Len(sem.site)] = "D" /\ sem.key \in {"call-stock", "stock"}
              THEN "InlineCacheKeyMismatch"
         ELSE "")
    ELSE IF Cardinality(argset) > 1 /\ ("C" \in SeqToSet(sem.site) \/ sem.key = "custom2")
         THEN "InlineCacheIgnoresArgs"
    ELSE IF coll THEN "CompositeKeyPyEq"
    ELSE ""
=============================================================================
