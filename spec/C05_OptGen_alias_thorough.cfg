CONSTANTS
  OptPoolSel = "alias"
  OptArgSel = "two"
  MaxLen = 2
  Steps = 1
  ClassSel = "alias"
  FirstSel = "four"
  CollectMode = "bound"
  FbMode = "faithful"
  InlineHit = "identity"
INIT Init
NEXT Next
INVARIANT HandlersPreserved
INVARIANT Explained
INVARIANT ShippedUsageFine
INVARIANT Emit
CHECK_DEADLOCK FALSE
