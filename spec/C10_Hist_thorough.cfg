CONSTANT KeyMode = "value"
CONSTANT MaxOps = 6
CONSTANT NPool = 8
CONSTANT Bug = "none"
INIT Init
NEXT Next
INVARIANT EveryDerivativeIsOfItsOwnInput
INVARIANT CacheCoherent
INVARIANT Emit
CHECK_DEADLOCK FALSE
