CONSTANTS
  PoolSel = "fields"
  ArgSel = "none"
  MaxLen = 2
  KeyMode = "ideal"
  StoreMode = "store"
  HitMode = "identity"
  Random = FALSE
  FbMode = "faithful"
  ShareSel = "shared"
  RbMode = "scope"
INIT Init
NEXT Next
INVARIANT RebuildTransparent
CHECK_DEADLOCK FALSE
