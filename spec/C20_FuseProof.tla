--------------------------- MODULE C20_FuseProof ---------------------------
(***************************************************************************)
(* Supplementary (TLAPS): the id-uniqueness invariant of repeated fusion,  *)
(* for unbounded streams, arbitrary id sets and arbitrary fresh maps.      *)
(* Statements are abstracted to their ids (bodies and dependencies play no *)
(* role for this invariant).  Mirrors FreshMap / ApplyFuse / FuseAct of    *)
(* C20_Imperative / C20_Fusion.                                            *)
(***************************************************************************)
EXTENDS Integers, Sequences, TLAPS
CONSTANT Id
VARIABLE cur

Distinct(s) == \A i, j \in 1..Len(s) : s[i] = s[j] => i = j
IdsOf(s) == {s[i] : i \in 1..Len(s)}
Renamed(B, m) == [i \in 1..Len(B) |-> m[B[i]]]
Fresh(A, B, m) == /\ \A x \in IdsOf(B) : m[x] \in Id
                  /\ \A x, y \in IdsOf(B) : m[x] = m[y] => x = y
                  /\ \A x \in IdsOf(B) : m[x] \notin IdsOf(A)
Fuse(A, B, m) == A \o Renamed(B, m)

LEMMA FuseKeepsIdsDistinct ==
  ASSUME NEW A \in Seq(Id), NEW B \in Seq(Id), NEW m,
         Distinct(A), Distinct(B), Fresh(A, B, m)
  PROVE  Fuse(A, B, m) \in Seq(Id) /\ Distinct(Fuse(A, B, m))
<1> DEFINE RB == Renamed(B, m)
<1> DEFINE R == A \o RB
<1>1. RB \in Seq(Id) /\ Len(RB) = Len(B)
  <2>1. \A i \in 1..Len(B) : m[B[i]] \in Id
    BY DEF Fresh, IdsOf
  <2>2. Len(B) \in Nat
    OBVIOUS
  <2> QED BY <2>1, <2>2 DEF Renamed
<1>2. R \in Seq(Id) /\ Len(R) = Len(A) + Len(B)
  BY <1>1
<1>3. \A i \in 1..Len(A) : R[i] = A[i]
  BY <1>1
<1>4. \A i \in (Len(A) + 1)..(Len(A) + Len(B)) : R[i] = m[B[i - Len(A)]]
  BY <1>1 DEF Renamed
<1>5. Distinct(R)
  <2> SUFFICES ASSUME NEW i \in 1..Len(R), NEW j \in 1..Len(R), R[i] = R[j]
               PROVE  i = j
    BY DEF Distinct
  <2>a. Len(A) \in Nat /\ Len(B) \in Nat
    OBVIOUS
  <2>1. CASE i <= Len(A) /\ j <= Len(A)
    BY <2>1, <1>3 DEF Distinct
  <2>2. CASE i > Len(A) /\ j > Len(A)
    <3>1. i - Len(A) \in 1..Len(B) /\ j - Len(A) \in 1..Len(B)
      BY <2>2, <1>2, <2>a
    <3>2. m[B[i - Len(A)]] = m[B[j - Len(A)]]
      BY <2>2, <1>4, <1>2, <2>a
    <3>3. B[i - Len(A)] = B[j - Len(A)]
      BY <3>1, <3>2 DEF Fresh, IdsOf
    <3>4. i - Len(A) = j - Len(A)
      BY <3>1, <3>3 DEF Distinct
    <3> QED BY <3>4, <2>a
  <2>3. CASE i <= Len(A) /\ j > Len(A)
    <3>1. j - Len(A) \in 1..Len(B)
      BY <2>3, <1>2, <2>a
    <3>2. R[j] = m[B[j - Len(A)]] /\ R[i] = A[i]
      BY <2>3, <1>3, <1>4, <1>2, <2>a
    <3>3. m[B[j - Len(A)]] \notin IdsOf(A)
      BY <3>1 DEF Fresh, IdsOf
    <3>4. A[i] \in IdsOf(A)
      BY <2>3 DEF IdsOf
    <3> QED BY <3>2, <3>3, <3>4
  <2>4. CASE i > Len(A) /\ j <= Len(A)
    <3>1. i - Len(A) \in 1..Len(B)
      BY <2>4, <1>2, <2>a
    <3>2. R[i] = m[B[i - Len(A)]] /\ R[j] = A[j]
      BY <2>4, <1>3, <1>4, <1>2, <2>a
    <3>3. m[B[i - Len(A)]] \notin IdsOf(A)
      BY <3>1 DEF Fresh, IdsOf
    <3>4. A[j] \in IdsOf(A)
      BY <2>4 DEF IdsOf
    <3> QED BY <3>2, <3>3, <3>4
  <2> QED BY <2>1, <2>2, <2>3, <2>4, <2>a
<1> QED BY <1>2, <1>5 DEF Fuse

(* the history: any number of fusions, the built program on either side or both *)
Init == cur \in Seq(Id) /\ Distinct(cur)
Next == \E X \in Seq(Id) : \E m :
           /\ Distinct(X)
           /\ \/ Fresh(cur, X, m) /\ cur' = Fuse(cur, X, m)
              \/ Fresh(X, cur, m) /\ cur' = Fuse(X, cur, m)
              \/ Fresh(cur, cur, m) /\ cur' = Fuse(cur, cur, m)
Spec == Init /\ [][Next]_cur
Inv == cur \in Seq(Id) /\ Distinct(cur)

THEOREM IdsDistinctForever == Spec => []Inv
<1>1. Init => Inv
  BY DEF Init, Inv
<1>2. Inv /\ [Next]_cur => Inv'
  <2> SUFFICES ASSUME Inv, [Next]_cur PROVE Inv'
    OBVIOUS
  <2>1. CASE UNCHANGED cur
    BY <2>1 DEF Inv
  <2>2. CASE Next
    <3>0. PICK X \in Seq(Id) : \E mm :
             /\ Distinct(X)
             /\ \/ Fresh(cur, X, mm) /\ cur' = Fuse(cur, X, mm)
                \/ Fresh(X, cur, mm) /\ cur' = Fuse(X, cur, mm)
                \/ Fresh(cur, cur, mm) /\ cur' = Fuse(cur, cur, mm)
      BY <2>2 DEF Next
    <3>1. PICK m :
             /\ Distinct(X)
             /\ \/ Fresh(cur, X, m) /\ cur' = Fuse(cur, X, m)
                \/ Fresh(X, cur, m) /\ cur' = Fuse(X, cur, m)
                \/ Fresh(cur, cur, m) /\ cur' = Fuse(cur, cur, m)
      BY <3>0
    <3>2. CASE Fresh(cur, X, m) /\ cur' = Fuse(cur, X, m)
      BY <3>1, <3>2, FuseKeepsIdsDistinct DEF Inv
    <3>3. CASE Fresh(X, cur, m) /\ cur' = Fuse(X, cur, m)
      BY <3>1, <3>3, FuseKeepsIdsDistinct DEF Inv
    <3>4. CASE Fresh(cur, cur, m) /\ cur' = Fuse(cur, cur, m)
      BY <3>1, <3>4, FuseKeepsIdsDistinct DEF Inv
    <3> QED BY <3>1, <3>2, <3>3, <3>4
  <2> QED BY <2>1, <2>2
<1> QED BY <1>1, <1>2, PTL DEF Spec
=============================================================================
