------------------------------- MODULE C01_Laws -------------------------------
(***************************************************************************)
(* Laws of the M-layer (PyEq is an equivalence, Canon is its canonical     *)
(* form, the CPython-like hash is a legal hash) and the theorem "the       *)
(* generated __eq__ (A-layer, uncached) agrees with PyEq", evaluated by    *)
(* TLC over the whole catalogue as ASSUMEs.  Run once per check.           *)
(***************************************************************************)
EXTENDS C01_Objects, C01_Catalogue
UPairs == UNION { { << Families[i][a], Families[i][b] >> :
                      a \in 1..Len(Families[i]), b \in 1..Len(Families[i]) }
                : i \in 1..Len(Families) }
(***************************************************************************)
(* M-layer laws, checked once over the whole catalogue                     *)
(***************************************************************************)
NormOK(s) == ~IsErr(Norm(s))
Stored == { Norm(s) : s \in { s2 \in AllSpecs : NormOK(s2) } }
ASSUME \A s \in AllSpecs : WellFormed(s)
ASSUME \A a \in Stored : PyEq(a, a)
ASSUME \A a, b \in Stored : PyEq(a, b) = PyEq(b, a)
ASSUME \A a, b \in Stored : PyEq(a, b) = (Canon(a) = Canon(b))          \* hence transitive
ASSUME \A a, b \in Stored : PyEq(a, b) => RealHash(a) = RealHash(b)     \* CPython-like hash is legal
ASSUME \A i \in 1..Len(Families) : \A a, b, c \in { Norm(Families[i][k]) : k \in
            { k2 \in 1..Len(Families[i]) : NormOK(Families[i][k2]) } } :
            (PyEq(a, b) /\ PyEq(b, c)) => PyEq(a, c)
\* the A-layer __eq__ (no cache, no identity) agrees with the meaning on every family pair
ImplAgrees == \A p \in UPairs : (NormOK(p[1]) /\ NormOK(p[2])) =>
                 ImplValEq(Norm(p[1]), Norm(p[2])) = PyEq(Norm(p[1]), Norm(p[2]))
ASSUME Bug = "none" => ImplAgrees
ASSUME PrintT(<< "laws checked over", Cardinality(Stored), "stored trees", Cardinality(UPairs), "pairs" >>)
Init == objs = << >> /\ dict = << >> /\ last = 0 /\ cmemo = {}
Next == UNCHANGED << objs, dict, last, cmemo >>
=============================================================================
