------------------------------- MODULE C01_Laws -------------------------------
(***************************************************************************)
(* Laws of the M-layer (PyEq is an equivalence, Canon is its canonical     *)
(* form, the CPython-like hash is a legal hash) and the theorem "the       *)
(* generated __eq__ (A-layer, uncached) agrees with PyEq", evaluated by    *)
(* TLC over the whole catalogue as ASSUMEs.  Run once per check.           *)
(***************************************************************************)
EXTENDS C01_Objects, C01_Catalogue
UPairs == UNION { { << Families[i][a], Families[i][b] >> :
                      a \in 1..Len(Families[i]), b \in 1..Len(Families[i]) }
                : i \in 1..Len(Families) }
(***************************************************************************)
(* M-layer laws, checked once over the whole catalogue                     *)
(***************************************************************************)
NormOK(s) == ~IsErr(Norm(s))
Stored == { Norm(s) : s \in { s2 \in AllSpecs : NormOK(s2) } }
ASSUME \A s \in AllSpecs : WellFormed(s)
\* strict structural == on the trees without a NaN constant (on those it is the whole meaning)
Plain == { a \in Stored : ~HasNaN(a) }
FamStored(i) == { Norm(Families[i][k]) : k \in { k2 \in 1..Len(Families[i]) : NormOK(Families[i][k2]) } }
ASSUME \A a \in Plain : PyEq(a, a)
ASSUME \A a, b \in Plain : PyEq(a, b) = PyEq(b, a)
ASSUME \A a, b \in Plain : PyEq(a, b) = (Canon(a) = Canon(b))          \* hence transitive
ASSUME \A a, b \in Plain : PyEq(a, b) => RealHash(a) = RealHash(b)     \* CPython-like hash is legal
ASSUME \A i \in 1..Len(Families) : \A a, b, c \in FamStored(i) \cap Plain :
            (PyEq(a, b) /\ PyEq(b, c)) => PyEq(a, c)
\* the three-valued meaning (two different objects with trees a, b): it extends PyEq, is
\* symmetric, "must be equal" is transitive and forces equal hashes, and trees with a NaN
\* directly in a field are really there and really not strictly == themselves
ASSUME \A a, b \in Plain : EqTop(a, b) = B3(PyEq(a, b))
ASSUME \A a, b \in Stored : EqTop(a, b) = EqTop(b, a)
ASSUME \A a, b \in Stored : EqTop(a, b) = "T" => (RealHash(a) = RealHash(b) /\ Canon(a) = Canon(b))
ASSUME \A i \in 1..Len(Families) : \A a, b, c \in FamStored(i) :
            (EqTop(a, b) = "T" /\ EqTop(b, c) = "T") => EqTop(a, c) = "T"
ASSUME \E a \in Stored : HasNaN(a) /\ ~PyEq(a, a) /\ EqTop(a, a) = "U"
ASSUME \E a \in Stored : HasNaN(a) /\ ~PyEq(a, a) /\ EqTop(a, a) = "T"     \* NaN in a tuple field
ASSUME \A a \in Stored : EqTop(a, a) # "F"
\* the A-layer __eq__ (no cache, no identity) agrees with the meaning on every family pair
ImplAgrees == \A p \in UPairs : (NormOK(p[1]) /\ NormOK(p[2])) =>
                 LET a == Norm(p[1])  b == Norm(p[2]) IN
                 IF ~HasNaN(a) /\ ~HasNaN(b) THEN ImplValEq(a, b, FALSE) = PyEq(a, b)
                 ELSE ~Contradicts(ImplValEq(a, b, FALSE), EqTop(a, b))
ASSUME Bug = "none" => ImplAgrees
\* without the identity exit an object holding a NaN directly in a field is not == itself
ASSUME \E a \in Stored : ~SelfValEq(a, FALSE)
ASSUME \A a \in Plain : SelfValEq(a, FALSE)
ASSUME PrintT(<< "laws checked over", Cardinality(Stored), "stored trees", Cardinality(UPairs), "pairs" >>)
Init == objs = << >> /\ dict = << >> /\ last = 0 /\ cmemo = {} /\ heap = Heap0
Next == UNCHANGED << objs, dict, last, cmemo, heap >>
=============================================================================
