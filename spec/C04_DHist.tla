------------------------------ MODULE C04_DHist ------------------------------
(***************************************************************************)
(* C04, dispatch half, histories (round 7).                                *)
(*                                                                         *)
(* The statement makes the handler a function of the node's class and of   *)
(* the handlers the mapper implements: "the handler named by the node's    *)
(* class, else the handler of the nearest ancestor class that the mapper   *)
(* implements, else the hook".  Nothing in it depends on what the mapper   *)
(* INSTANCE was applied to before.  This module is the S-layer of that     *)
(* sentence: ONE mapper instance (one set of implemented handlers), a      *)
(* history of two or three dispatches over node classes that share handler *)
(* names across different hierarchies -                                    *)
(*   - the same class name used in two hierarchies (the decorator derives  *)
(*     the same handler name for both),                                    *)
(*   - the same explicit mapper_method set in two hierarchies,             *)
(*   - a second user level below such classes (names shared at two         *)
(*     positions of the resolution order),                                 *)
(*   - an explicit mapper_method that is the handler name of a stock node  *)
(*     class of ANOTHER hierarchy, next to instances of the stock classes  *)
(*     themselves -                                                        *)
(* each dispatch entering through __call__ or rec_fallback.  The state     *)
(* carries what the instance may remember between dispatches (memo);       *)
(* every dispatch is judged by the existing meaning (Dispatch /            *)
(* RecFallback / Applied of C04_Dispatch) on ITS class alone.              *)
(*                                                                         *)
(* MemoMode = "none"    the instance remembers nothing (the documented     *)
(*                      dispatcher);                                       *)
(*          = "byclass" the instance remembers the handler found by the    *)
(*                      ancestor search per NODE CLASS - still a function  *)
(*                      of (mapper class, node class): the invariant holds;*)
(*          = "byname"  negative control: the handler found by the         *)
(*                      ancestor search is remembered under the node's     *)
(*                      HANDLER NAME (an instance attribute that shadows   *)
(*                      the class's methods for every later lookup of that *)
(*                      name): TLC must find EveryDispatchIsTheMeaning     *)
(*                      violated.                                          *)
(* Every complete history (MemoMode = "none") is printed and replayed on   *)
(* one real Mapper / CachedMapper instance; C04_DHJudge judges it.         *)
(***************************************************************************)
EXTENDS C04_Dispatch, Json
CONSTANT Tier, MemoMode
VARIABLES hist, impl, pat, stubs, memo, runs, phase

\* ------------------------------------------------------------------ node classes of a history
N_Marker == << "M","a","r","k","e","r" >>
N_Side   == << "S","i","d","e" >>
N_FooBar == << "F","o","o","B","a","r" >>
N_Alias  == << "A","l","i","a","s" >>
\* chain shapes: the classes below the base, the node is an instance of the last one
\*  1 same class name in every hierarchy, handler name derived
\*  2 explicit handler name, the same in every hierarchy
\*  3 two user levels, both names shared across hierarchies
\*  4 undecorated class with the explicit name (the handler name is a plain class attribute)
\*  5 / 6 explicit name = the handler name of a stock class (Sum / Variable)
\*  0 the stock class itself
Shape(s) ==
    CASE s = 0 -> << >>
      [] s = 1 -> << Cls(N_Marker, TRUE, "") >>
      [] s = 2 -> << Cls(N_Side, TRUE, "map_side") >>
      [] s = 3 -> << Cls(N_Marker, TRUE, ""), Cls(N_FooBar, TRUE, "") >>
      [] s = 4 -> << Cls(N_Side, FALSE, "map_side") >>
      [] s = 5 -> << Cls(N_Alias, TRUE, "map_sum") >>
      [] s = 6 -> << Cls(N_Alias, TRUE, "map_variable") >>
Concrete == {"Variable", "Sum", "CommonSubexpression", "Call"}
NodeCls(b, s) == [base |-> b, chain |-> Shape(s), shape |-> s]
HBases == IF Tier = "quick" THEN {"Expression", "Leaf", "Variable", "Sum", "Call"} ELSE Bases
Pool ==
    { NodeCls(b, s) : b \in HBases, s \in {1, 2} }
    \cup { NodeCls(b, 3) : b \in (IF Tier = "quick" THEN {"Expression", "Variable", "Sum"} ELSE Bases) }
    \cup { NodeCls(b, 0) : b \in HBases \cap Concrete }
    \cup { NodeCls(b, s) : b \in (IF Tier = "quick" THEN {"Expression", "Variable", "Sum"} ELSE Bases),
                           s \in {5, 6} }
    \cup (IF Tier = "quick" THEN {} ELSE { NodeCls(b, 4) : b \in Bases })
\* histories of three dispatches: the quick tier takes the forms A B A and A A B over a small pool,
\* the thorough tier every triple over a wider one
Pool3 == IF Tier = "quick"
         THEN { NodeCls(b, s) : b \in {"Expression", "Variable", "Sum", "Call"}, s \in {1, 2} }
         ELSE { NodeCls(b, s) : b \in {"Expression", "Leaf", "Variable", "Sum", "Call"}, s \in {1, 2} }

\* entry points of the dispatches of a history, by position
Patterns == { << "call", "call", "call" >>, << "fallback", "call", "call" >>, << "call", "fallback", "call" >> }
\* what the base class Mapper provides for everybody (C04_DGen; the judge takes the real list)
MapperStubs == {"map_variable", "map_call", "map_algebraic_leaf", "map_subscript", "map_lookup",
                "map_constant", "map_list", "map_tuple", "map_numpy_array", "map_nan",
                "map_quotient", "map_rational", "map_if_positive"}

NamesOf(c) == LET nm == MRONames(Lineage(c)) IN { nm[k] : k \in 1..Len(nm) } \ {""}
Universe(h) == UNION { NamesOf(h[i]) : i \in 1..Len(h) }
\* two classes share a handler name although one is not an ancestor of the other
SharesName(c, d) == c # d /\ NamesOf(c) \cap NamesOf(d) # {}

\* ------------------------------------------------------------------ one dispatch on the instance (A-layer)
\* attribute lookup on the mapper instance: the instance's own attributes first, then the class
InstAttr(m, Impl, n) ==
    IF MemoMode = "byname" /\ n \in DOMAIN m THEN m[n] ELSE IF n \in Impl THEN n ELSE ""
\* the ancestor search of Mapper.__call__ / rec_fallback: for cls in type(expr).__mro__[1:]
HFallback(L, Impl, m) ==
    LET RECURSIVE Go(_)
        Go(i) == IF i < 1 THEN "unsupported"
                 ELSE LET nm == GetAttr(L, i)
                          h == IF nm = "" THEN "" ELSE InstAttr(m, Impl, nm) IN
                      IF h # "" THEN h ELSE Go(i - 1)
    IN Go(Len(L) - 1)
\* result: the run (C04_Dispatch.Applied's shape) and what the instance remembers afterwards
HStep(L, Impl, m, entry) ==
    LET nm == GetAttr(L, Len(L))
        fast == IF entry # "call" THEN ""
                ELSE IF MemoMode = "byclass" /\ L \in DOMAIN m THEN m[L]
                ELSE IF nm # "" THEN InstAttr(m, Impl, nm) ELSE ""
        fb == HFallback(L, Impl, m)
        h == IF fast # "" THEN fast ELSE fb
        found == entry = "call" /\ fast = "" /\ fb # "unsupported"
        m2 == IF found /\ MemoMode = "byname" /\ nm # "" THEN (nm :> fb) @@ m
              ELSE IF found /\ MemoMode = "byclass" THEN (L :> fb) @@ m
              ELSE m
    IN [run |-> [seq |-> << h >>, out |-> OcOf(OcAll, h)], memo |-> m2]

\* ------------------------------------------------------------------ the state machine
ImplNow == impl \cup (IF stubs THEN MapperStubs ELSE {})
Init ==
    /\ phase = "build" /\ impl = {} /\ memo = [x \in {} |-> ""] /\ runs = << >>
    /\ pat \in Patterns /\ stubs \in BOOLEAN
    /\ hist \in { << c >> : c \in Pool }
Extend ==
    /\ phase = "build"
    /\ \/ Len(hist) = 1 /\ \E c \in Pool : hist' = Append(hist, c)
       \/ /\ Len(hist) = 2 /\ hist[1] \in Pool3 /\ hist[2] \in Pool3
          /\ \E c \in Pool3 :
               /\ Tier = "quick" => (c = hist[1] \/ hist[1] = hist[2])
               /\ hist' = Append(hist, c)
    /\ UNCHANGED << impl, pat, stubs, memo, runs, phase >>
Choose ==
    /\ phase = "build" /\ Len(hist) >= 2
    /\ impl' \in SUBSET Universe(hist)
    /\ phase' = "run" /\ UNCHANGED << hist, pat, stubs, memo, runs >>
Dispatch1 ==
    /\ phase = "run" /\ Len(runs) < Len(hist)
    /\ LET i == Len(runs) + 1
           r == HStep(Lineage(hist[i]), ImplNow, memo, pat[i]) IN
       /\ runs' = Append(runs, r.run) /\ memo' = r.memo
    /\ UNCHANGED << hist, impl, pat, stubs, phase >>
Next == Extend \/ Choose \/ Dispatch1

Complete == phase = "run" /\ Len(runs) = Len(hist)

\* ------------------------------------------------------------------ checked on the model
\* every dispatch of every history is what the statement says for ITS class - whatever the
\* instance dispatched before
MeaningAt(i) ==
    LET L == Lineage(hist[i]) IN
    Applied(IF pat[i] = "call" THEN Dispatch(L, ImplNow) ELSE RecFallback(L, ImplNow), OcAll)
EveryDispatchIsTheMeaning == \A i \in 1..Len(runs) : runs[i] = MeaningAt(i)
\* consequently: the same class through the same entry point gets the same handler every time
HistoryFree ==
    \A i, j \in 1..Len(runs) : (hist[i] = hist[j] /\ pat[i] = pat[j]) => runs[i] = runs[j]
\* what is remembered never names a handler the mapper does not have
MemoSane == \A k \in DOMAIN memo : memo[k] \in ImplNow
\* the pool does contain what the histories are about
ASSUME \E c, d \in Pool : SharesName(c, d) /\ c.base # d.base /\ c.shape = 1 /\ d.shape = 1
ASSUME \E c, d \in Pool : SharesName(c, d) /\ c.base # d.base /\ c.shape = 2 /\ d.shape = 2
ASSUME \A c \in Pool : c.chain = << >> => c.base \in Concrete

\* ------------------------------------------------------------------ emission
\* HArgs / HRuns (C04_Dispatch): the arguments by position and how a history is replayed
ASSUME \A p \in Patterns : \E r \in 1..Len(HRuns) : HRuns[r].pat = p
Emit == (Complete /\ ~stubs /\ pat = << "call", "call", "call" >> /\ MemoMode = "none") =>
    PrintT(ToJson([hist |-> [i \in 1..Len(hist) |->
                               [base |-> hist[i].base, shape |-> hist[i].shape,
                                chain |-> [j \in 1..Len(hist[i].chain) |->
                                             [name |-> hist[i].chain[j].name, deco |-> hist[i].chain[j].deco,
                                              own |-> hist[i].chain[j].own, mix |-> FALSE]]]],
                   impl |-> impl]))
ASSUME PrintT(ToJson([hruns |-> HRuns, hargs |-> HArgs]))
=============================================================================
