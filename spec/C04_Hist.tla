------------------------------ MODULE C04_Hist ------------------------------
(***************************************************************************)
(* S-layer for C04: a HISTORY of calls on ONE mapper instance.  The        *)
(* property quantifies over all extra positional/keyword argument tuples   *)
(* and says that every application of a stock traversal passes them        *)
(* through unchanged and reaches every node - also the second and third    *)
(* application on a mapper that remembers results (the Cached* variants).  *)
(*                                                                         *)
(* The model: a memoising fold over one expression tree.  A call applies   *)
(* the mapper to a node n of the tree with the argument tuple APs[p]; the  *)
(* mapper keeps a cache  key -> result  across calls.  The result of a     *)
(* call means "every leaf occurrence below n contributes, with the         *)
(* arguments of THIS call": Meaning(n, p).  KeyMode says what the cache is *)
(* keyed by:                                                               *)
(*   "full"     (expression, positional arguments, keyword arguments) -    *)
(*              the design of CachedMapper.get_cache_key;                  *)
(*   "kwnames"  keyword arguments by their names only    } negative        *)
(*   "nokw"     keyword arguments left out of the key    } controls: TLC   *)
(*   "noargs"   the expression alone                     } must find the   *)
(*   "posonly-count"  positional arguments by their number } stale answer  *)
(* Invariants: EveryCallIsTheMeaning (no history returns a stale result),  *)
(* CacheCoherent (every remembered result is the meaning of its key),      *)
(* ModelWalkAccepted (the events the memoising walk produces are accepted  *)
(* by the stack acceptor of C04_Walk with the cross-call memo relaxation,  *)
(* and the full walk by the acceptor without any relaxation).              *)
(*                                                                         *)
(* Every complete history is printed; the driver replays it on ONE         *)
(* instance of each instrumented stock traversal (memoising and plain) and *)
(* C04_WJudge steps the acceptor along the events of every call.           *)
(***************************************************************************)
EXTENDS C04_Walk, Json
CONSTANTS KeyMode, Tier, MaxCalls, Free
VARIABLES ti, tab, ct, lf, cache, memo, hist, wrong

\* ------------------------------------------------------------------ argument tuples
KW(k, v) == [k |-> k, v |-> v]
AP(a, k) == [a |-> a, k |-> k]        \* keyword arguments sorted by name
APsAll == <<
  AP(<< >>, << >>),
  AP(<< >>, << KW("tag", 7) >>),
  AP(<< >>, << KW("tag", 8) >>),                       \* same keyword, other value
  AP(<< 1 >>, << KW("tag", 7) >>),
  AP(<< 2 >>, << KW("tag", 7) >>),                     \* other positional value, same keywords
  AP(<< >>, << KW("other", 7) >>),                     \* other keyword name, same value
  AP(<< 1 >>, << >>),
  \* thorough only
  AP(<< 2 >>, << >>),
  AP(<< 1, 2 >>, << >>), AP(<< 2, 1 >>, << >>),        \* same positional values in another order
  AP(<< 7 >>, << >>),                                  \* a keyword value as positional argument
  AP(<< >>, << KW("other", 7), KW("tag", 8) >>),
  AP(<< >>, << KW("other", 8), KW("tag", 7) >>),       \* the two values swapped
  AP(<< 1 >>, << KW("tag", 8) >>) >>
NAP == IF Tier = "quick" THEN 7 ELSE IF Tier = "thorough" THEN 10 ELSE Len(APsAll)
APs == SubSeq(APsAll, 1, NAP)

\* ------------------------------------------------------------------ trees
x == V("x")  y == V("y")
HTreesAll == <<
  \* repeated leaves, a call with keyword arguments, a conditional
  N("Sum", << N("Product", << KI(2), x >>), CallKw(V("f"), << y >>, << KwArg("k1", x) >>),
              IfE(Cmp(x, "<", y), x, y) >>),
  \* no two equal subtrees: the same-object clause stays decidable for the memoising variants
  N("Sum", << CSE(N("Product", << V("a"), V("b") >>)), Look(V("c"), "attr"),
              B("Sub", V("d"), N("Tup", << V("e"), KI(1) >>)) >>),
  \* twin subtrees
  B("Power", N("Sum", << x, y >>), N("Sum", << x, y >>)),
  \* a slice with an omitted part (the combine mappers report it)
  Call(V("f"), << B("Quotient", x, y), N("Slice", << x, NoneE, y >>) >>),
  \* thorough only
  N("Max", << U("LogNot", x), N("Min", << y, V("z") >>), Deriv(x, << "x" >>) >>),
  N("Tup", << Subst(x, << "x" >>, << y >>), B("FloorDiv", KI(3), x), N("BitXor", << x, y, KI(1) >>) >>),
  V("x") >>
NT == IF Tier = "quick" THEN 4 ELSE Len(HTreesAll)
HTree(i) == Numbered(HTreesAll[i])

SetToSeq(S) == LET RECURSIVE Go(_) Go(X) == IF X = {} THEN << >>
                                            ELSE LET m == CHOOSE m \in X : \A q \in X : m <= q
                                                 IN << m >> \o Go(X \ {m})
               IN Go(S)
\* the nodes a call may be applied to: the root, the inner nodes, the first leaf
InnerOf(tb) == { i \in 2..Len(tb) : Len(tb[i]) > 0 }
FirstLeaf(tb) == LET ls == { i \in 1..Len(tb) : Len(tb[i]) = 0 } IN
                 { CHOOSE i \in ls : \A j \in ls : i <= j }
Targets(tb) ==
    LET inner == SetToSeq(InnerOf(tb)) IN
    IF Tier = "quick"
    THEN {1} \cup (IF Len(inner) > 0 THEN {inner[1], inner[Len(inner)]} ELSE {})
    ELSE IF Tier = "thorough" THEN {1} \cup InnerOf(tb)
    ELSE {1} \cup InnerOf(tb) \cup FirstLeaf(tb)

\* ------------------------------------------------------------------ the memoising fold
Key(n, p) ==
    CASE KeyMode = "full"    -> << ct[n], APs[p].a, APs[p].k >>
      [] KeyMode = "kwnames" -> << ct[n], APs[p].a, [i \in 1..Len(APs[p].k) |-> APs[p].k[i].k] >>
      [] KeyMode = "nokw"    -> << ct[n], APs[p].a, << >> >>
      [] KeyMode = "noargs"  -> << ct[n], << >>, << >> >>
      [] KeyMode = "posonly-count" -> << ct[n], << Len(APs[p].a) >>, APs[p].k >>
Below(n) == {n} \cup DescOf(tab, n)
\* what an application to node n with arguments p means: every leaf occurrence below
\* contributes (occurrences that are equal as Python compares are one), with THESE arguments
Meaning(n, p) == { << ct[l], p >> : l \in Below(n) \cap lf }

RECURSIVE MFold(_, _, _)
MFold(n, p, c) ==      \* -> [c: cache afterwards, v: result, evs: events of the walk]
    LET key == Key(n, p) IN
    IF \E e \in c : e[1] = key
    THEN [c |-> c, v |-> (CHOOSE e \in c : e[1] = key)[2], evs |-> << >>]
    ELSE LET kids == tab[n]
             RECURSIVE Go(_, _)
             Go(i, acc) == IF i > Len(kids) THEN acc
                           ELSE LET r == MFold(kids[i], p, acc.c) IN
                                Go(i + 1, [c |-> r.c, v |-> acc.v \cup r.v, evs |-> acc.evs \o r.evs])
             r == Go(1, [c |-> c, v |-> IF n \in lf THEN { << ct[n], p >> } ELSE {},
                         evs |-> << Ev("visit", n, TRUE) >>])
         IN [c |-> r.c \cup { << key, r.v >> }, v |-> r.v, evs |-> Append(r.evs, Ev("post", n, TRUE))]

Init == /\ ti \in 1..NT
        /\ tab = Tab(HTree(ti)) /\ ct = ClsTab(HTree(ti))
        /\ lf = ContributingLeaves(HTree(ti))
        /\ cache = {} /\ memo = {} /\ hist = << >> /\ wrong = ""

IdCls == MkSeq(Len(tab), LAMBDA i : i)
\* the subtree below node n as a tree of its own (preorder numbers are contiguous): for the
\* declarative contract, which is stated for a walk that starts at node 1
SubTab(n) == LET sz == 1 + Cardinality(DescOf(tab, n)) IN
             MkSeq(sz, LAMBDA i : MkSeq(Len(tab[n + i - 1]), LAMBDA j : tab[n + i - 1][j] - (n - 1)))
Shifted(evs, n) == [i \in 1..Len(evs) |-> [evs[i] EXCEPT !.n = @ - (n - 1)]]
DoneIn(evs) == { evs[i].n : i \in { j \in 1..Len(evs) : evs[j].e = "post" } }
Apply(n, p) ==
    LET r == MFold(n, p, cache)
        ext == { m[1] : m \in { q \in memo : q[2] = p } }
        full == WalkOf(tab, n, {})
    IN /\ cache' = r.c
       /\ memo' = memo \cup { << ct[m], p >> : m \in DoneIn(r.evs) }
       /\ hist' = Append(hist, [n |-> n, p |-> p])
       /\ wrong' = IF wrong # "" THEN wrong
                   ELSE IF r.v # Meaning(n, p) THEN "stale-result"
                   ELSE IF RunWhyX(tab, ct, TRUE, r.evs, n, ext) # "" THEN "memo-walk-rejected"
                   ELSE IF RunWhyX(tab, IdCls, FALSE, full, n, {}) # "" \/ ~MDFS(Shifted(full, n), SubTab(n))
                        THEN "full-walk-rejected"
                   ELSE ""
       /\ UNCHANGED << ti, tab, ct, lf >>

\* Free: every history; otherwise the third call repeats the first (A B A).  Tier random
\* (-simulate): the call is drawn here, so that one successor is computed per step
SetPick(S) == SetToSeq(S)[RandomElement(1..Cardinality(S))]
Next == /\ Len(hist) < MaxCalls
        /\ IF Tier = "random"
           THEN Apply(SetPick(Targets(tab)), RandomElement(1..NAP))
           ELSE \E n \in Targets(tab), p \in 1..NAP :
                  /\ IF Free \/ Len(hist) # 2 THEN TRUE ELSE [n |-> n, p |-> p] = hist[1]
                  /\ Apply(n, p)

\* ------------------------------------------------------------------ the property on the design
EveryCallIsTheMeaning == wrong # "stale-result"
ModelWalkAccepted == wrong \notin {"memo-walk-rejected", "full-walk-rejected"}
CacheCoherent ==
    KeyMode = "full" =>
      \A e \in cache : \E n \in 1..Len(tab), p \in 1..NAP : e[1] = Key(n, p) /\ e[2] = Meaning(n, p)

\* ------------------------------------------------------------------ what is driven
\* driven: the histories whose third call repeats the first (A B A: the remembered answer for
\* A must survive B, the answer for B must not be the one for A; A A A included); tier random
\* (-simulate): every history of MaxCalls calls that is drawn
Shape == IF Tier = "random" THEN TRUE ELSE (MaxCalls = 3 /\ hist[3] = hist[1])
FamCfg(fam, R) == [fam |-> fam, F |-> << >>, R |-> R, impl |-> << >>]
AtRoot == \A i \in 1..Len(hist) : hist[i].n = 1
\* the memoising variants on every history; the plain ones (nothing may be remembered at all) on
\* the histories that stay at the root
HCfgs ==
    { FamCfg("cwalk", << >>), FamCfg("cident", << >>), FamCfg("cident", << "x" >>), FamCfg("ccoll", << >>) }
    \cup (IF AtRoot \/ Tier # "quick" THEN { FamCfg("ccomb", << >>) } ELSE {})
    \cup (IF AtRoot THEN { FamCfg("walk", << >>), FamCfg("ident", << "x" >>), FamCfg("coll", << >>) } ELSE {})
    \cup (IF AtRoot /\ Tier # "quick" THEN { FamCfg("comb", << >>), FamCfg("cbident", << "x" >>) } ELSE {})
CfgSeq(S) == LET RECURSIVE Go(_) Go(X) == IF X = {} THEN << >>
                                          ELSE LET m == CHOOSE m \in X : TRUE IN << m >> \o Go(X \ {m})
             IN Go(S)
Emit == (Len(hist) = MaxCalls /\ Shape) =>
            PrintT(ToJson([ti |-> ti, calls |-> hist, cfgs |-> CfgSeq(HCfgs)]))
ASSUME PrintT(ToJson([htrees |-> [i \in 1..NT |-> HTree(i)], aps |-> APs]))
=============================================================================
