CONSTANT Merge = "copy"
CONSTANT MaxOps = 3
CONSTANT NPairs = 6
CONSTANT NTrees = 2
CONSTANT NKw = 3
CONSTANT WithPut = TRUE
CONSTANT Filter = TRUE
CONSTANT Rand = FALSE
INIT Init
NEXT Next
INVARIANT CallerMapsUnchanged
INVARIANT EveryCallMeansItsArguments
INVARIANT Emit
CHECK_DEADLOCK FALSE
