CONSTANTS
  KeyMode = "full"
  Tier = "random"
  MaxCalls = 5
  Free = TRUE
  Bug = "none"
INIT Init
NEXT Next
INVARIANT EveryCallIsTheMeaning
INVARIANT ModelWalkAccepted
INVARIANT CacheCoherent
INVARIANT Emit
CHECK_DEADLOCK FALSE
