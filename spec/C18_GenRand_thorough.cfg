CONSTANT Tier = "thorough"
CONSTANT Bug = "none"
INIT Init
NEXT Next
INVARIANT ModelHolds
INVARIANT Emit
CHECK_DEADLOCK FALSE
