CONSTANT Tier = "tiny"
CONSTANT Buggy = "CopyForgets"
INIT Init
NEXT Next
INVARIANT NamesUnique
CHECK_DEADLOCK FALSE
