CONSTANTS
  HashMode = "real"
  Bug = "AddrMemo"
  Sweeps = {"hpsmall"}
  PairDepth = 2
  NearDepth = 2
  DeepDepth = 1
  HierDepth = 2
  XDepth = 1
  SelfDepth = 2
  FormDepth = 2
  HeapDepth = 3
  Wide = FALSE
  EmitCases = FALSE
INIT Init
NEXT Next
INVARIANT EqIsPyEq

CHECK_DEADLOCK FALSE
