-------------------------------- MODULE Eval --------------------------------
(***************************************************************************)
(* M-layer: the denotation of every node kind -- "the ordinary Python      *)
(* operator or construct each node denotes" -- over PyNum values.          *)
(* Errors are values; evaluation is left to right, If/and/or are lazy.     *)
(* Unrep (outside the model) is absorbing wherever it is actually needed.  *)
(***************************************************************************)
EXTENDS Expr

\* ---- the fixed environment objects (mirrored by harness/envobjs.py; the
\* ---- generator emits the environments themselves, see C02_Gen) ----------
FnBase(fname)  == IF fname = "f" THEN 1 ELSE 2
FnPosW(fname)  == IF fname = "f" THEN << 2, 3, 5 >> ELSE << 3, 5, 7 >>
\* (besides k1, k2 the functions accept keywords spelt like parameter names an implementation is
\* likely to use itself: a keyword argument is data, whatever it is called)
OtherKwW == [expr |-> 19, self |-> 23, args |-> 29, kwargs |-> 31, expression |-> 37, context |-> 41]
FnKwW(fname, k) == IF k \in DOMAIN OtherKwW THEN OtherKwW[k] + (IF fname = "f" THEN 0 ELSE 1)
                   ELSE IF fname = "f" THEN (IF k = "k1" THEN 7 ELSE 11)
                   ELSE (IF k = "k1" THEN 13 ELSE 17)
KwNames == {"k1", "k2"} \cup DOMAIN OtherKwW

\* f(a1..an, k1=.., k2=..) = base + sum w_i*a_i + sum w_k*v_k ; injective enough to
\* see argument order and keyword binding in the value
(***************************************************************************)
(* An exact, identity-respecting model of the elementary functions (used   *)
(* by C10): every function value is a rational function of the argument,   *)
(* chosen so that the algebraic identities between these functions hold    *)
(* (tan = sin/cos, sin^2+cos^2 = 1, cosh^2-sinh^2 = 1, tanh = sinh/cosh,   *)
(* expm1 = exp-1), with the half-angle parameter t = u and exp u = 1+u^2.  *)
(* log is an arbitrary fixed function.  harness/envobjs.py FakeMath is the *)
(* driver-side mirror.  Values are Fractions.                              *)
(***************************************************************************)
MathFns == {"sin", "cos", "tan", "log", "exp", "sinh", "cosh", "tanh", "expm1", "fabs", "copysign"}
ToFrac(v) == [k |-> "frac", n |-> v.n, d |-> v.d]
MathApply(fname, args) ==
    IF \E i \in 1..Len(args) : ~IsNum(args[i]) THEN Unrep
    ELSE IF (fname = "copysign" /\ Len(args) # 2) \/ (fname # "copysign" /\ Len(args) # 1)
         THEN Err("TypeError")
    ELSE LET u == ToFrac(args[1])
             one == FracV(1, 1)  two == FracV(2, 1)
             uu == PyBin("*", u, u)
             ex == PyBin("+", one, uu)                          \* exp u
             rex == PyBin("/", one, ex)                         \* 1 / exp u
             sn == PyBin("/", PyBin("*", two, u), PyBin("+", one, uu))
             cs == PyBin("/", PyBin("-", one, uu), PyBin("+", one, uu))
             sh == PyBin("/", PyBin("-", ex, rex), two)
             ch == PyBin("/", PyBin("+", ex, rex), two)
         IN CASE fname = "sin" -> sn
              [] fname = "cos" -> cs
              [] fname = "tan" -> PyBin("/", sn, cs)
              [] fname = "exp" -> ex
              [] fname = "expm1" -> PyBin("-", ex, one)
              [] fname = "sinh" -> sh
              [] fname = "cosh" -> ch
              [] fname = "tanh" -> PyBin("/", sh, ch)
              [] fname = "log" -> PyBin("+", PyBin("*", FracV(3, 1), u), FracV(-1, 2))
              [] fname = "fabs" -> IF u.n < 0 THEN NumNeg(u) ELSE u
              [] fname = "copysign" ->
                    LET a == IF u.n < 0 THEN NumNeg(u) ELSE u IN
                    IF args[2].n < 0 THEN NumNeg(a) ELSE a

FnApply(fname, args, kws) ==
    IF fname \in MathFns THEN (IF Len(kws) > 0 THEN Err("TypeError") ELSE MathApply(fname, args))
    ELSE IF Len(args) > 3 \/ (\E i \in 1..Len(kws) : kws[i].name \notin KwNames)
       \/ (\E i, j \in 1..Len(kws) : i # j /\ kws[i].name = kws[j].name)
    THEN Err("TypeError")
    ELSE IF (\E i \in 1..Len(args) : ~IsNum(args[i]))
            \/ (\E i \in 1..Len(kws) : ~IsNum(kws[i].v)) THEN Unrep
    ELSE LET RECURSIVE GoP(_, _), GoK(_, _)
             GoP(i, acc) == IF i > Len(args) THEN acc
                            ELSE GoP(i + 1, PyBin("+", acc,
                                     PyBin("*", IntV(FnPosW(fname)[i]), args[i])))
             GoK(i, acc) == IF i > Len(kws) THEN acc
                            ELSE GoK(i + 1, PyBin("+", acc,
                                     PyBin("*", IntV(FnKwW(fname, kws[i].name)), kws[i].v)))
         IN GoK(1, GoP(1, IntV(FnBase(fname))))

ObjAttr(oname, attr) ==
    IF oname = "math" THEN (IF attr \in MathFns THEN [k |-> "fn", name |-> attr] ELSE Err("AttributeError"))
    ELSE IF oname = "o1" /\ attr = "p" THEN IntV(5)
    ELSE IF oname = "o1" /\ attr = "q" THEN FracV(1, 2)
    \* attributes named like pymbolic's own instance attributes
    ELSE IF oname = "o1" /\ attr = "aggregate" THEN IntV(7)
    ELSE IF oname = "o1" /\ attr = "name" THEN IntV(3)
    \* attributes whose names begin with underscores are attributes like any other
    ELSE IF oname = "o1" /\ attr = "_u" THEN IntV(9)
    ELSE IF oname = "o1" /\ attr = "__w__" THEN IntV(-4)
    ELSE IF oname = "o2" /\ attr = "p" THEN IntV(-2)
    ELSE Err("AttributeError")

\* ---- helpers -------------------------------------------------------------
\* a value that is neither a number nor an error nor out-of-model
IsObjLike(v) == ~IsNum(v) /\ ~IsErr(v) /\ ~IsUnrep(v)

\* first "bad" (unrep anywhere wins, else the leftmost error) or the fallback
Strict(vals, k) ==
    IF \E i \in 1..Len(vals) : IsUnrep(vals[i]) THEN Unrep
    ELSE IF \E i \in 1..Len(vals) : IsErr(vals[i])
         THEN vals[CHOOSE i \in 1..Len(vals) :
                     IsErr(vals[i]) /\ \A j \in 1..(i - 1) : ~IsErr(vals[j])]
         ELSE k

FoldL(op, init, vals) ==
    LET RECURSIVE Go(_, _)
        Go(i, acc) == IF i > Len(vals) THEN acc ELSE Go(i + 1, PyBin(op, acc, vals[i]))
    IN Go(1, init)

\* Python's min/max return the first extremal operand
Extremum(isMin, vals) ==
    LET RECURSIVE Go(_, _)
        Go(i, best) ==
            IF i > Len(vals) THEN best
            ELSE LET c == NumCmp3(vals[i], best) IN
                 Go(i + 1, IF (isMin /\ c < 0) \/ (~isMin /\ c > 0) THEN vals[i] ELSE best)
    IN Go(2, vals[1])

\* a mapping keyed by integers AND by tuples: tells m[1] from m[(1,)] (envobjs.MAPS)
MapGet(mname, idx) ==
    IF idx.k = "tup" /\ Len(idx.items) = 1 /\ IsNum(idx.items[1]) /\ idx.items[1].n = 1 /\ idx.items[1].d = 1
        THEN IntV(7)
    ELSE IF IsNum(idx) /\ idx.n = 1 /\ idx.d = 1 THEN IntV(9)
    ELSE IF idx.k = "tup" /\ Len(idx.items) = 2 /\ IsNum(idx.items[1]) /\ IsNum(idx.items[2])
            /\ idx.items[1].n = 0 /\ idx.items[2].n = 1 /\ idx.items[2].d = 1 THEN IntV(11)
    ELSE IF IsNum(idx) \/ idx.k = "tup" THEN Err("KeyError")
    ELSE Unrep

Index(agg, idx) ==
    IF agg.k = "map" THEN MapGet(agg.name, idx)
    ELSE IF agg.k \notin {"tup", "list"} THEN
        (IF IsNum(agg) \/ agg.k \in {"fn", "obj"} THEN Err("TypeError") ELSE Unrep)
    ELSE IF ~IsNum(idx) THEN (IF idx.k \in {"tup", "list"} THEN Err("TypeError") ELSE Unrep)
    ELSE IF ~IsIntLike(idx) THEN Err("TypeError")
    ELSE LET n == Len(agg.items)
             i == IF idx.n < 0 THEN idx.n + n ELSE idx.n
         IN IF i < 0 \/ i >= n THEN Err("IndexError") ELSE agg.items[i + 1]

BinOpOf(t) == CASE t = "Quotient" -> "/" [] t = "FloorDiv" -> "//" [] t = "Remainder" -> "%"
                [] t = "Power" -> "**" [] t = "LShift" -> "<<" [] t = "RShift" -> ">>"
NaryOpOf(t) == CASE t = "Sum" -> "+" [] t = "Product" -> "*" [] t = "BitOr" -> "|"
                 [] t = "BitXor" -> "^" [] t = "BitAnd" -> "&"

RECURSIVE Eval(_, _)
EvalSeq(es, env) == [i \in 1..Len(es) |-> Eval(es[i], env)]

\* lazy disjunction / conjunction: the answer is a bool (any/all)
EvalAnyAll(es, env, isOr) ==
    LET RECURSIVE Go(_)
        Go(i) == IF i > Len(es) THEN BoolV(~isOr)
                 ELSE LET v == Eval(es[i], env) IN
                      IF IsUnrep(v) \/ IsErr(v) THEN v
                      ELSE IF Truthy(v) = isOr THEN BoolV(isOr)
                      ELSE Go(i + 1)
    IN Go(1)

Eval(e, env) ==
    CASE e.t = "Var" -> IF e.name \in DOMAIN env THEN env[e.name]
                        ELSE ErrA("UnknownVariableError", e.name)
      [] e.t = "Const" -> e.v
      \* c1 + c2 + ... + cn in operand order; the empty sum / product is 0 / 1
      \* the sum of the operands in order, as Python's sum() forms it: 0 + c1 + ... + cn
      \* (so the sum of one bool is an int); likewise 1 * c1 * ... * cn
      [] e.t = "Sum" -> FoldL("+", IntV(0), EvalSeq(e.c, env))
      [] e.t = "Product" -> FoldL("*", IntV(1), EvalSeq(e.c, env))
      [] e.t \in {"BitOr", "BitXor", "BitAnd"} ->
            IF Len(e.c) = 0 THEN Err("TypeError")
            ELSE LET vs == EvalSeq(e.c, env) IN FoldL(NaryOpOf(e.t), vs[1], Tail(vs))
      [] e.t \in {"Quotient", "FloorDiv", "Remainder", "Power", "LShift", "RShift"} ->
            PyBin(BinOpOf(e.t), Eval(e.a, env), Eval(e.b, env))
      [] e.t = "BitNot" -> PyUn("~", Eval(e.a, env))
      [] e.t = "LogNot" -> PyUn("not", Eval(e.a, env))
      [] e.t = "LogOr"  -> EvalAnyAll(e.c, env, TRUE)
      [] e.t = "LogAnd" -> EvalAnyAll(e.c, env, FALSE)
      [] e.t = "Cmp" -> PyCompare(e.op, Eval(e.a, env), Eval(e.b, env))
      [] e.t = "If" -> LET c == Eval(e.i, env) IN
                       IF IsUnrep(c) \/ IsErr(c) THEN c
                       ELSE IF Truthy(c) THEN Eval(e.th, env) ELSE Eval(e.el, env)
      [] e.t \in {"Min", "Max"} ->
            LET vs == EvalSeq(e.c, env) IN
            IF \E i \in 1..Len(vs) : IsObjLike(vs[i]) THEN Unrep   \* ill-typed: not judged
            ELSE Strict(vs, IF Len(vs) = 0 THEN Err("ValueError")
                            ELSE Extremum(e.t = "Min", vs))
      [] e.t = "Call" ->
            LET fv == Eval(e.f, env) vs == EvalSeq(e.c, env) IN
            Strict(<< fv >> \o vs,
                   IF fv.k = "fn" THEN FnApply(fv.name, vs, << >>) ELSE Err("TypeError"))
      [] e.t = "CallKw" ->
            LET fv == Eval(e.f, env) vs == EvalSeq(e.c, env)
                ks == [i \in 1..Len(e.kw) |-> [name |-> e.kw[i].name, v |-> Eval(e.kw[i].e, env)]]
            IN Strict(<< fv >> \o vs \o [i \in 1..Len(ks) |-> ks[i].v],
                      IF fv.k = "fn" THEN FnApply(fv.name, vs, ks) ELSE Err("TypeError"))
      [] e.t = "Sub" -> LET a == Eval(e.a, env) i == Eval(e.b, env) IN
                        Strict(<< a, i >>, Index(a, i))
      [] e.t = "Look" -> LET a == Eval(e.a, env) IN
                         IF IsUnrep(a) \/ IsErr(a) THEN a
                         ELSE IF a.k = "obj" THEN ObjAttr(a.name, e.name)
                         ELSE Err("AttributeError")
      [] e.t = "CSE" -> Eval(e.a, env)
      [] e.t \in {"Tup", "List"} ->
            LET vs == EvalSeq(e.c, env) IN
            Strict(vs, [k |-> (IF e.t = "Tup" THEN "tup" ELSE "list"), items |-> vs])
      [] OTHER -> Unrep

\* every error some subexpression could raise on its own (used to accept a
\* different-but-legitimate error when several are present)
AllErrs(e, env) == {v \in {Eval(s, env) : s \in SubExprs(e)} : IsErr(v)}

RECURSIVE KindEq(_, _)
KindEq(a, b) ==
    IF IsNum(a) /\ IsNum(b) THEN a.k = b.k
    ELSE IF a.k \in {"tup", "list"} /\ b.k = a.k /\ Len(a.items) = Len(b.items)
         THEN \A i \in 1..Len(a.items) : KindEq(a.items[i], b.items[i])
    ELSE TRUE

\* verdict on one observation: "OK", "SKIP" or a failing clause
JudgeVal(expected, got, e, env) ==
    IF IsUnrep(expected) \/ IsUnrep(got) THEN "SKIP"
    ELSE IF IsErr(expected) THEN
        (IF got = expected THEN "OK"
         ELSE IF IsErr(got) /\ got \in AllErrs(e, env) THEN "OK"
         ELSE IF IsErr(got) THEN "wrong-error" ELSE "value-instead-of-error")
    ELSE IF IsErr(got) THEN "error-instead-of-value"
    ELSE IF ValEq(expected, got) THEN "OK" ELSE "wrong-value"

\* type-strict variant: same value but another numeric type (int / float / Fraction / bool)
\* is a failure too - the result of the "ordinary Python operator" has a definite type,
\* which PyNum models
JudgeValT(expected, got, e, env) ==
    LET v == JudgeVal(expected, got, e, env) IN
    IF v = "OK" /\ ~IsErr(expected) /\ ~KindEq(expected, got) THEN "wrong-type" ELSE v
=============================================================================
