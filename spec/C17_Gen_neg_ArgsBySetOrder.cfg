CONSTANT Tier = "neg2"
CONSTANT NProc = 3
CONSTANT Buggy_PickleCarriesHash = FALSE
CONSTANT Buggy_DigestUsesProcess = FALSE
CONSTANT Buggy_SetstateByPosition = FALSE
CONSTANT Buggy_ArgsBySetOrder = TRUE
CONSTANT Buggy_DigestSkipsShared = FALSE
CONSTANT Buggy_CompiledLosesVars = FALSE
CONSTANT Buggy_OptionsCrossed = FALSE
CONSTANT Buggy_LegacyHashAssigns = FALSE
CONSTANT Buggy_VarsByName = FALSE
INIT Init
NEXT Next
INVARIANT Inv_EqIsPyEq
INVARIANT Inv_NoForeignHash
INVARIANT Inv_HashIsLocal
INVARIANT Inv_LookupFinds
INVARIANT Inv_CompiledComputes
INVARIANT Inv_DigestIsStructural
INVARIANT Inv_NothingRaised
CHECK_DEADLOCK FALSE
