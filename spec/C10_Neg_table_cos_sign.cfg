CONSTANT Bug = "table_cos_sign"
INIT Init
NEXT Next
INVARIANT Refines
CHECK_DEADLOCK FALSE
