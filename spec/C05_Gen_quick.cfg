CONSTANTS
  PoolSel = "core"
  ArgSel = "core"
  MaxLen = 2
  KeyMode = "ideal"
  StoreMode = "store"
  HitMode = "identity"
  Random = FALSE
  FbMode = "faithful"
  ShareSel = "parity"
  RbMode = "faithful"
INIT Init
NEXT Next
INVARIANT Accepted
INVARIANT NoComputedTwice
INVARIANT Transparent
INVARIANT NotSharedArgs
INVARIANT NotSharedTypes
INVARIANT SoundCache
INVARIANT RebuildTransparent
INVARIANT FieldsSurvive
INVARIANT Emit
CHECK_DEADLOCK FALSE
