CONSTANT Tier = "thorough"
INIT Init
NEXT Next
INVARIANT PowRefines
INVARIANT EuclidRefines
INVARIANT EntryJudgeAccepts
INVARIANT EntryJudgeSharp
INVARIANT BigJudgeSound
INVARIANT ManyRefines
INVARIANT FFTRefines
INVARIANT FFTInverse
INVARIANT PolyRefinesOrNamed
INVARIANT DivModRefines
INVARIANT DivQSound
INVARIANT Emit
CHECK_DEADLOCK FALSE
