------------------------------ MODULE C20_Heap ------------------------------
(***************************************************************************)
(* C20, S-layer with OBJECT IDENTITY.  In C20_Fusion a stream is a value;  *)
(* there "the inputs are left as they were" cannot even be said.  Here a   *)
(* statement is an object in a heap, a stream is a sequence of object      *)
(* references, and the caller holds handles to all streams it ever built   *)
(* or got back.  Fusion hands back the first operand's own objects         *)
(* followed by fresh copies of the second operand's; disambiguation hands  *)
(* back fresh copies (or, for a statement the renaming does not change,    *)
(* possibly the object itself: both are admitted, parameter shr).          *)
(*                                                                         *)
(* Consequences TLC checks over all histories, INCLUDING aliased operands  *)
(* (a handle fused with itself, a result - which still holds the first     *)
(* operand's objects - fed back in as second operand):                     *)
(*   HInv_Frame        no step changes an object that existed before it    *)
(*   HInv_FrameClause  the same, as the trace validator observes it: the   *)
(*                     two operand lists read again after the call         *)
(*   HInv_FrameComplete  the two are equivalent (nothing outside the       *)
(*                     operands is reachable by the call), so observing    *)
(*                     the operands is a complete observation              *)
(*   HInv_Value        the clauses of C20_Imperative hold between the      *)
(*                     operands AS THEY WERE and the result AS IT IS       *)
(*   HInv_HandlesKeep  every program the caller holds still reads as when  *)
(*                     it was obtained                                     *)
(* Wrong variants (negative controls):                                     *)
(*   CondInPlace     a conditional assignment whose left- and right-hand   *)
(*                   side the renaming leaves alone is not copied: its     *)
(*                   condition is overwritten in place                     *)
(*   FuseIdsInPlace  fusion renames the second operand's statements in     *)
(*                   place instead of copying them                         *)
(* With Alias = FALSE (operands never share an object) and only the        *)
(* output clauses HInv_Value observed, CondInPlace is INVISIBLE: that      *)
(* configuration must pass, and documents why aliased operands and the     *)
(* frame observation both belong to the check.                             *)
(***************************************************************************)
EXTENDS C20_Algo
CONSTANTS HBuggy,     \* "none" | "CondInPlace" | "FuseIdsInPlace"
          Alias,      \* TRUE: any two handles may be the operands of a step
          MaxOps, MaxLen, MaxObj
VARIABLES heap,       \* heap[o]: content of statement object o
          hs,         \* the caller's handles: sequences of object references
          hv,         \* hv[k]: what handle k read as when the caller obtained it
          hlast,      \* log of the last step
          hn
hvars == << heap, hs, hv, hlast, hn >>

va == V("a")  vb == V("b")  vi == V("i")

Deref(h, refs) == [k \in 1..Len(refs) |-> h[refs[k]]]
Objs(refs) == SeqToSet(refs)

\* two base programs; identifier i occurs in the first one ONLY in a condition (statement s)
\* and only on a left-hand side (statement t), a only on a left-hand side
Base == <<
    << CondAssignS("s", << >>, va, KI(5), Cmp(vi, "<", KI(3))),
       AssignS("t", << "s" >>, vi, vb) >>,
    << AssignS("s", << >>, B("Sub", vb, vi), va) >> >>
Filters == { [mode |-> "all", names |-> << >>], [mode |-> "set", names |-> << "i" >>],
             [mode |-> "set", names |-> << "a" >>] }
NoFlt == [mode |-> "all", names |-> << >>]
NoLog == [op |-> "init", h0 |-> << >>, ra |-> << >>, rb |-> << >>, flt |-> NoFlt,
          sg |-> << >>, m |-> << >>, rr |-> << >>, rb2 |-> << >>]

Init == /\ heap = Base[1] \o Base[2]
        /\ hs = << << 1, 2 >>, << 3 >> >>
        /\ hv = << Base[1], Base[2] >>
        /\ hlast = NoLog /\ hn = 0

\* --- disambiguation on objects: statement by statement, in list order ----------
RECURSIVE DisObjs(_, _, _, _, _, _)
DisObjs(h, refs, sg, shr, k, acc) ==
    IF k > Len(refs) THEN [h |-> h, r |-> acc]
    ELSE LET o  == refs[k]
             s  == h[o]
             s2 == RenameStmt(s, sg)
             untouchedLR == s2.lhs = s.lhs /\ s2.rhs = s.rhs
         IN  IF HBuggy = "CondInPlace" /\ untouchedLR /\ s.kind = "CondAssign"
             THEN DisObjs([h EXCEPT ![o] = s2], refs, sg, shr, k + 1, Append(acc, o))
             ELSE IF HBuggy = "CondInPlace" /\ untouchedLR
             THEN DisObjs(h, refs, sg, shr, k + 1, Append(acc, o))
             ELSE IF shr /\ s2 = s
             THEN DisObjs(h, refs, sg, shr, k + 1, Append(acc, o))
             ELSE DisObjs(Append(h, s2), refs, sg, shr, k + 1, Append(acc, Len(h) + 1))

\* --- fusion on objects ------------------------------------------------------------
Renumbered(s, m) == [s EXCEPT !.id = m[@], !.deps = [k \in 1..Len(@) |-> m[@[k]]]]
FuseObjs(h, ra, rb, m) ==
    IF HBuggy = "FuseIdsInPlace"
    THEN [h |-> [o \in 1..Len(h) |-> IF o \in Objs(rb) THEN Renumbered(h[o], m) ELSE h[o]],
          r |-> ra \o rb]
    ELSE [h |-> h \o [k \in 1..Len(rb) |-> Renumbered(h[rb[k]], m)],
          r |-> ra \o [k \in 1..Len(rb) |-> Len(h) + k]]

\* --- the caller's steps -------------------------------------------------------------
Obtain(h, r) == /\ heap' = h /\ hs' = Append(hs, r) /\ hv' = Append(hv, Deref(h, r))

HFuse(ra, rb) ==
    LET m == FuseImplMap(Deref(heap, ra), Deref(heap, rb))
        f == FuseObjs(heap, ra, rb, m)
    IN  /\ Len(f.h) <= MaxObj
        /\ Obtain(f.h, f.r)
        /\ hlast' = [NoLog EXCEPT !.op = "fuse", !.h0 = heap, !.ra = ra, !.rb = rb, !.m = m, !.rr = f.r]

HDis(ra, rb, flt, shr) ==
    LET sg == DisImplMap(Deref(heap, ra), Deref(heap, rb), flt, FALSE)
        d  == DisObjs(heap, rb, sg, shr, 1, << >>)
    IN  /\ Len(d.h) <= MaxObj
        /\ Obtain(d.h, d.r)
        /\ hlast' = [NoLog EXCEPT !.op = "dis", !.h0 = heap, !.ra = ra, !.rb = rb, !.flt = flt,
                                  !.sg = sg, !.rb2 = d.r]

HDaf(ra, rb, flt, shr) ==
    LET sg == DisImplMap(Deref(heap, ra), Deref(heap, rb), flt, FALSE)
        d  == DisObjs(heap, rb, sg, shr, 1, << >>)
        \* the fusion reads the first operand in the heap the disambiguation left behind
        A1 == Deref(d.h, ra)
        B2 == Deref(d.h, d.r)
        ok == WellFormed(A1) /\ WellFormed(B2)
        m  == IF ok THEN FuseImplMap(A1, B2) ELSE << >>
        f  == FuseObjs(d.h, ra, d.r, m)
    IN  /\ ok
        /\ Len(f.h) <= MaxObj
        /\ Obtain(f.h, f.r)
        /\ hlast' = [NoLog EXCEPT !.op = "daf", !.h0 = heap, !.ra = ra, !.rb = rb, !.flt = flt,
                                  !.sg = sg, !.m = m, !.rr = f.r, !.rb2 = d.r]

Pairs == {ij \in (1..Len(hs)) \X (1..Len(hs)) :
             Alias \/ Objs(hs[ij[1]]) \cap Objs(hs[ij[2]]) = {}}

Next ==
    /\ hn < MaxOps /\ hn' = hn + 1
    /\ \E ij \in Pairs :
         LET ra == hs[ij[1]]  rb == hs[ij[2]] IN
         /\ Len(ra) + Len(rb) <= MaxLen
         /\ WellFormed(Deref(heap, ra)) /\ WellFormed(Deref(heap, rb))
         /\ \/ HFuse(ra, rb)
            \/ \E flt \in Filters, shr \in BOOLEAN : HDis(ra, rb, flt, shr) \/ HDaf(ra, rb, flt, shr)

\* --- invariants ------------------------------------------------------------------------
A0 == Deref(hlast.h0, hlast.ra)
B0 == Deref(hlast.h0, hlast.rb)

HInv_Frame == \A o \in 1..Len(hlast.h0) : heap[o] = hlast.h0[o]
FrameObserved == FrameClause(A0, B0, Deref(heap, hlast.ra), Deref(heap, hlast.rb))
HInv_FrameClause == FrameObserved = "OK"
HInv_FrameComplete == HInv_Frame <=> HInv_FrameClause

HInv_Value ==
    CASE hlast.op = "fuse" -> FuseClause(A0, B0, Deref(heap, hlast.rr), hlast.m) = "OK"
      [] hlast.op = "dis"  -> DisClause(A0, B0, hlast.flt, Deref(heap, hlast.rb2), hlast.sg) = "OK"
      [] hlast.op = "daf"  -> LET SB2 == RenameStream(B0, hlast.sg) IN
                              /\ DisClause(A0, B0, hlast.flt, SB2, hlast.sg) = "OK"
                              /\ FuseClause(A0, SB2, Deref(heap, hlast.rr), hlast.m) = "OK"
      [] OTHER -> TRUE

HInv_HandlesKeep == \A k \in 1..Len(hs) : Deref(heap, hs[k]) = hv[k]
HInv_HandlesWF   == \A k \in 1..Len(hs) : WellFormed(Deref(heap, hs[k]))
=============================================================================
