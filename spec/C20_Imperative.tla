--------------------------- MODULE C20_Imperative ---------------------------
(***************************************************************************)
(* C20, M-layer: what statement streams are and what the property's        *)
(* sentences mean.  Written from the property text and from what an        *)
(* assignment  "lhs <- rhs if cond"  does when it executes, not from       *)
(* pymbolic's source.                                                      *)
(*                                                                         *)
(* SA statement is the record (same shape as the JSON of harness/c20.py)    *)
(*    [id, deps, kind, lhs, rhs, cond]                                     *)
(*      id    string                                                       *)
(*      deps  sequence of ids (a set, listed in any order)                 *)
(*      kind  "Assign" | "CondAssign" | "Nop"                              *)
(*      lhs   Var | Sub(Var, index)            (None for Nop)              *)
(*      rhs   expression                       (None for Nop)              *)
(*      cond  expression (None for Assign/Nop; Const True = unconditional) *)
(* SA stream is a sequence of statements.                                   *)
(***************************************************************************)
EXTENDS Expr

St(id, deps, kind, lhs, rhs, cond) ==
    [id |-> id, deps |-> deps, kind |-> kind, lhs |-> lhs, rhs |-> rhs, cond |-> cond]
AssignS(id, deps, lhs, rhs)           == St(id, deps, "Assign", lhs, rhs, NoneE)
CondAssignS(id, deps, lhs, rhs, cond) == St(id, deps, "CondAssign", lhs, rhs, cond)
NopS(id, deps)                        == St(id, deps, "Nop", NoneE, NoneE, NoneE)
TrueE == K(BoolV(TRUE))

Range(f) == {f[x] : x \in DOMAIN f}
Injective(f) == \A x, y \in DOMAIN f : f[x] = f[y] => x = y

\* a finite map that crossed the JSON boundary as a sequence of <<key, value>> pairs
PairsOK(ps) == \A i, j \in 1..Len(ps) : ps[i][1] = ps[j][1] => i = j
MapOf(ps) == [k \in {ps[i][1] : i \in 1..Len(ps)} |->
                 ps[CHOOSE i \in 1..Len(ps) : ps[i][1] = k][2]]

(***************************************************************************)
(* Streams, ids, the dependency relation                                   *)
(***************************************************************************)
Deps(s)   == SeqToSet(s.deps)
Ids(S)    == {S[i].id : i \in 1..Len(S)}
IdsDistinct(S) == Cardinality(Ids(S)) = Len(S)
DepsClosed(S)  == \A i \in 1..Len(S) : Deps(S[i]) \subseteq Ids(S)
\* <<s, d>> : statement s depends on (must run after) statement d
DepEdges(S) == UNION {{<<S[i].id, d>> : d \in Deps(S[i])} : i \in 1..Len(S)}

RECURSIVE TC(_)
TC(E) == LET E2 == E \cup {<<pq[1][1], pq[2][2]>> :
                              pq \in {pq \in E \X E : pq[1][2] = pq[2][1]}}
         IN  IF E2 = E THEN E ELSE TC(E2)
\* acyclic: peeling off the edges into sinks again and again consumes every edge
\* (C20_Gen checks  AcyclicE(E) <=> no <<x, x>> in TC(E)  on every graph it enumerates)
RECURSIVE Peel(_)
Peel(E) == IF E = {} THEN TRUE
           ELSE LET srcs == {p[1] : p \in E}
                    intoSinks == {p \in E : p[2] \notin srcs}
                IN  IF intoSinks = {} THEN FALSE ELSE Peel(E \ intoSinks)
AcyclicE(E) == Peel(E)
AcyclicByClosure(E) == \A p \in TC(E) : p[1] # p[2]
Acyclic(S)  == AcyclicE(DepEdges(S))
\* the streams the property quantifies over
WellFormed(S) == IdsDistinct(S) /\ DepsClosed(S) /\ Acyclic(S)

SameBody(s, t) == s.kind = t.kind /\ s.lhs = t.lhs /\ s.rhs = t.rhs /\ s.cond = t.cond
StmtEq(s, t)   == s.id = t.id /\ Deps(s) = Deps(t) /\ SameBody(s, t)
StreamEq(S, T) == Len(S) = Len(T) /\ \A i \in 1..Len(S) : StmtEq(S[i], T[i])

(***************************************************************************)
(* Transitive reduction.  For a finite DAG it is unique: the edges u -> v  *)
(* for which there is no longer way from u to v.  C20_Gen lets TLC check,  *)
(* for every DAG it enumerates, that this formula really is the least edge *)
(* set with the same reachability (TRIsLeast / TRIrredundant).             *)
(***************************************************************************)
TRc(E, C) == {e \in E : ~\E w \in {p[2] : p \in C} : <<e[1], w>> \in C /\ <<w, e[2]>> \in C}
TR(E) == TRc(E, TC(E))
TRIsLeast(E) == /\ TC(TR(E)) = TC(E)
                /\ \A F \in SUBSET E : TC(F) = TC(E) => TR(E) \subseteq F
TRIrredundant(E) == /\ TC(TR(E)) = TC(E)
                    /\ \A e \in TR(E) : TC(TR(E) \ {e}) # TC(E)

(***************************************************************************)
(* Independent scan of a statement for the variables it reads and writes.  *)
(*   written: the assigned variable, or the aggregate of an assigned       *)
(*            subscript;                                                   *)
(*   read:    every variable needed to execute the statement: those of the *)
(*            right-hand side, of the condition, and of the index of a     *)
(*            subscripted left-hand side.                                  *)
(* Two points are left open by the property text and are therefore         *)
(* tolerated both ways (Must <= reported <= May):                          *)
(*   - the name in the function position of a call f(..) names a function, *)
(*     not a datum (pymbolic documents include_calls="descend_args");      *)
(*   - whether the written variable itself (a in "a <- ..", "a[i] <- ..")  *)
(*     counts as read (a partial update of an array arguably reads it).    *)
(***************************************************************************)
RECURSIVE VarsAll(_), VarsArg(_)
VarsAll(e) == IF e.t = "Var" THEN {e.name}
              ELSE UNION {VarsAll(Kids(e)[i]) : i \in 1..Len(Kids(e))}
\* variables in data positions (function positions of calls are not entered)
VarsArg(e) ==
    IF e.t = "Var" THEN {e.name}
    ELSE IF e.t = "Call" THEN UNION {VarsArg(e.c[i]) : i \in 1..Len(e.c)}
    ELSE IF e.t = "CallKw" THEN UNION {VarsArg(e.c[i]) : i \in 1..Len(e.c)}
                                \cup UNION {VarsArg(e.kw[i].e) : i \in 1..Len(e.kw)}
    ELSE UNION {VarsArg(Kids(e)[i]) : i \in 1..Len(Kids(e))}

LhsOK(s) == \/ s.kind = "Nop" /\ s.lhs.t = "None"
            \/ s.kind \in {"Assign", "CondAssign"} /\
                 (s.lhs.t = "Var" \/ (s.lhs.t = "Sub" /\ s.lhs.a.t = "Var"))
StmtOK(s) == s.kind \in {"Assign", "CondAssign", "Nop"} /\ LhsOK(s)
StreamOK(S) == \A i \in 1..Len(S) : StmtOK(S[i])

LhsTarget(s)    == IF s.lhs.t = "Var" THEN {s.lhs.name}
                   ELSE IF s.lhs.t = "Sub" THEN {s.lhs.a.name} ELSE {}
LhsIndexVars(s) == IF s.lhs.t = "Sub" THEN VarsArg(s.lhs.b) ELSE {}

Writes(s)    == LhsTarget(s)
ReadsMust(s) == VarsArg(s.rhs) \cup VarsArg(s.cond) \cup LhsIndexVars(s)
ReadsMay(s)  == VarsAll(s.rhs) \cup VarsAll(s.cond) \cup VarsAll(s.lhs)
NamesOf(s)   == ReadsMay(s)

\* where in the statement a name occurs (used to attribute failures)
PosIn(s, x) ==    (IF x \in LhsTarget(s) THEN {"lhs"} ELSE {})
             \cup (IF x \in LhsIndexVars(s) THEN {"lhs-index"} ELSE {})
             \cup (IF x \in VarsArg(s.rhs) THEN {"rhs"} ELSE {})
             \cup (IF x \in VarsArg(s.cond) THEN {"cond"} ELSE {})
             \cup (IF x \in NamesOf(s) \ (LhsTarget(s) \cup ReadsMust(s)) THEN {"fn"} ELSE {})
PosInStream(S, x) == UNION {PosIn(S[i], x) : i \in 1..Len(S)}

IdentsMust(S) == UNION {ReadsMust(S[i]) \cup Writes(S[i]) : i \in 1..Len(S)}
IdentsMay(S)  == UNION {NamesOf(S[i]) : i \in 1..Len(S)}

(***************************************************************************)
(* Renaming identifiers                                                    *)
(***************************************************************************)
RECURSIVE RenameE(_, _)
RenameE(e, sg) ==
    IF e.t = "Var" THEN (IF e.name \in DOMAIN sg THEN V(sg[e.name]) ELSE e)
    ELSE IF Len(Kids(e)) = 0 THEN e
    ELSE WithKids(e, [i \in 1..Len(Kids(e)) |-> RenameE(Kids(e)[i], sg)])
RenameStmt(s, sg) == [s EXCEPT !.lhs = RenameE(@, sg), !.rhs = RenameE(@, sg),
                               !.cond = RenameE(@, sg)]
RenameStream(S, sg) == [i \in 1..Len(S) |-> RenameStmt(S[i], sg)]

\* the caller's filter: [mode |-> "default" | "all" | "none" | "set", names |-> seq]
Pass(flt, x) == \/ flt.mode \in {"default", "all"}
                \/ flt.mode = "set" /\ x \in SeqToSet(flt.names)

(***************************************************************************)
(* FUSE.  The property, sentence by sentence, as named clauses over the    *)
(* inputs SA, SB, the result R and the returned map m (old id -> new id).    *)
(* Fresh ids are not computed here: whatever the implementation chose is   *)
(* accepted as long as the clauses hold.                                   *)
(***************************************************************************)
FuseClause(SA, SB, R, m) ==
    LET nA == Len(SA)  nB == Len(SB) IN
    IF Len(R) # nA + nB THEN "fuse-length"
    ELSE IF ~IdsDistinct(R) THEN "fuse-ids-not-distinct"
    ELSE IF \E i \in 1..nA : ~StmtEq(R[i], SA[i]) THEN "fuse-first-changed"
    ELSE IF DOMAIN m # Ids(SB) THEN "fuse-map-domain"
    ELSE IF \E i \in 1..nB : R[nA + i].id # m[SB[i].id] THEN "fuse-id-not-mapped"
    ELSE IF \E i \in 1..nB : ~SameBody(R[nA + i], SB[i]) THEN "fuse-body-changed"
    ELSE IF \E i \in 1..nB : Deps(R[nA + i]) # {m[d] : d \in Deps(SB[i])}
         THEN "fuse-deps-not-remapped"
    \* positional form: the dependency points at the renamed copy of the same statement
    ELSE IF \E i, j \in 1..nB : (SB[j].id \in Deps(SB[i])) # (R[nA + j].id \in Deps(R[nA + i]))
         THEN "fuse-dep-wrong-statement"
    ELSE "OK"

(***************************************************************************)
(* FRAME.  "contains the first stream unchanged" and the very notion of a   *)
(* function of two streams presuppose that a call leaves the statements it  *)
(* was handed as they were: SA, SB are the operands as they stood before    *)
(* the call, A1, B1 the same two lists looked at again after it.  This is   *)
(* an observation of its own: a stream may be handed in twice (fused with   *)
(* itself) or contain the statement objects of an earlier result, and then  *)
(* a statement updated in place shows up in the other operand and in every  *)
(* program that holds the object (C20_Heap model-checks exactly that).      *)
(***************************************************************************)
FrameClause(SA, SB, A1, B1) ==
    IF ~StreamEq(A1, SA) THEN "first-input-modified"
    ELSE IF ~StreamEq(B1, SB) THEN "second-input-modified"
    ELSE "OK"

\* constructive form used by the state machine (C20_Fusion): the map decides everything
FreshMap(SA, SB, m) == DOMAIN m = Ids(SB) /\ Injective(m) /\ Range(m) \cap Ids(SA) = {}
ApplyFuse(SA, SB, m) ==
    SA \o [i \in 1..Len(SB) |->
            [SB[i] EXCEPT !.id = m[@], !.deps = [k \in 1..Len(@) |-> m[@[k]]]]]

(***************************************************************************)
(* DISAMBIGUATE.  Inputs SA, SB, filter; outputs SB2 and the renaming sg.     *)
(***************************************************************************)
ClashMust(SA, SB, flt) == {x \in IdentsMust(SA) \cap IdentsMust(SB) : Pass(flt, x)}
ClashMay(SA, SB, flt)  == {x \in IdentsMay(SA) \cap IdentsMay(SB) : Pass(flt, x)}

\* "Renames EXACTLY those identifiers": apart from the renamed Var nodes the trees of SB2 are
\* the trees of SB, node for node and constant for constant.  A constant is its value AND
\* its kind (the int 2 is not the float 2.0, the bool True is not the int 1): the trees of
\* Expr.tla carry the kind in the value record, and equality of trees ( = ) is therefore
\* strict about it.  Python's == on pymbolic objects is NOT: 2*i == 2.0*i, (acc == True) ==
\* (acc == 1).  That looser relation is PyEq below; DisClauseG takes the relation used for the
\* three expression clauses as a parameter so that C20_Gen can model-check what a judgement
\* by PyEq would overlook (negative control "CachedMapper", blind-spot control "LooseEq").
\* DisClause, the judgement, is the strict one.
LooseV(v) == IF v.k \in {"bool", "int", "frac", "flt"} THEN [k |-> "num", n |-> v.n, d |-> v.d] ELSE v
RECURSIVE EraseKinds(_)
EraseKinds(e) ==
    IF e.t = "Const" THEN K(LooseV(e.v))
    ELSE IF Len(Kids(e)) = 0 THEN e
    ELSE WithKids(e, [i \in 1..Len(Kids(e)) |-> EraseKinds(Kids(e)[i])])
PyEq(e1, e2) == EraseKinds(e1) = EraseKinds(e2)
StrictEq(e1, e2) == e1 = e2
\* same statement up to the kinds of its constants
PyEqBody(s, t) == s.kind = t.kind /\ PyEq(s.lhs, t.lhs) /\ PyEq(s.rhs, t.rhs) /\ PyEq(s.cond, t.cond)

DisClauseG(SA, SB, flt, SB2, sg, Same(_, _)) ==
    LET dom  == DOMAIN sg
        ma   == IdentsMust(SA)      \* LET values are evaluated once
        mb   == IdentsMust(SB)
        ya   == IdentsMay(SA)
        yb   == IdentsMay(SB)
        must == {x \in ma \cap mb : Pass(flt, x)}
        may  == {x \in ya \cap yb : Pass(flt, x)}
        rng  == Range(sg)
    IN
    IF Len(SB2) # Len(SB) THEN "dis-length"
    ELSE IF ~(must \subseteq dom) THEN "dis-clash-not-renamed"
    ELSE IF \E x \in dom : ~Pass(flt, x) THEN "dis-filter-ignored"
    ELSE IF ~(dom \subseteq may) THEN "dis-renamed-without-clash"
    ELSE IF ~Injective(sg) THEN "dis-not-injective"
    ELSE IF rng \cap (ma \cup mb) # {} THEN "dis-not-fresh"
    ELSE IF rng \cap (ya \cup yb) # {} THEN "SKIP"
    ELSE IF \E i \in 1..Len(SB) : SB2[i].id # SB[i].id \/ Deps(SB2[i]) # Deps(SB[i])
                                 \/ SB2[i].kind # SB[i].kind THEN "dis-id-deps-kind-changed"
    ELSE IF \E i \in 1..Len(SB) : ~Same(SB2[i].lhs, RenameE(SB[i].lhs, sg)) THEN "dis-lhs"
    ELSE IF \E i \in 1..Len(SB) : ~Same(SB2[i].rhs, RenameE(SB[i].rhs, sg)) THEN "dis-rhs"
    ELSE IF \E i \in 1..Len(SB) : ~Same(SB2[i].cond, RenameE(SB[i].cond, sg)) THEN "dis-cond"
    ELSE IF {x \in ma \cap IdentsMust(SB2) : Pass(flt, x)} # {} THEN "dis-still-shared"
    ELSE "OK"
DisClause(SA, SB, flt, SB2, sg)      == DisClauseG(SA, SB, flt, SB2, sg, StrictEq)
\* NOT a judgement: what comparing the returned expressions with Python's == amounts to
DisClauseLoose(SA, SB, flt, SB2, sg) == DisClauseG(SA, SB, flt, SB2, sg, PyEq)

\* attribution of a failing expression clause: the logged statements differ from the expected
\* ones in nothing but the kinds of constants (they are equal for Python's ==)
KindOnly(S2, SExp) == Len(S2) = Len(SExp) /\ \A i \in 1..Len(S2) : PyEqBody(S2[i], SExp[i])

\* the names a failing clause is about, and why the implementation may have missed them
DisCulprits(SA, SB, flt, sg, clause) ==
    CASE clause = "dis-clash-not-renamed" -> ClashMust(SA, SB, flt) \ DOMAIN sg
      [] clause = "dis-filter-ignored" -> {x \in DOMAIN sg : ~Pass(flt, x)}
      [] clause = "dis-renamed-without-clash" -> DOMAIN sg \ ClashMay(SA, SB, flt)
      [] clause = "dis-not-fresh" -> Range(sg) \cap (IdentsMust(SA) \cup IdentsMust(SB))
      [] OTHER -> {}
\* "lhs-index-only": every culprit occurs, in one of the two streams, in the index of a
\* subscripted left-hand side and in no other data position of that stream
HiddenIn(S, x) == "lhs-index" \in PosInStream(S, x) /\ PosInStream(S, x) \subseteq {"lhs-index", "fn"}
WhyOf(SA, SB, names) ==
    IF names # {} /\ \A x \in names : HiddenIn(SA, x) \/ HiddenIn(SB, x)
    THEN "lhs-index-only" ELSE "other"

(***************************************************************************)
(* READ / WRITTEN SETS of one statement                                    *)
(***************************************************************************)
RWClause(s, reads, writes) ==
    IF writes # Writes(s) THEN "writes-wrong"
    ELSE IF ~(ReadsMust(s) \subseteq reads) THEN "reads-missing"
    ELSE IF ~(reads \subseteq ReadsMay(s)) THEN "reads-extra"
    ELSE "OK"
\* positions of the missing names: the union of where they occur
RWMissingPos(s, reads) == UNION {PosIn(s, x) : x \in ReadsMust(s) \ reads}

(***************************************************************************)
(* DOT EXPORT: the drawn edges are the transitive reduction                *)
(***************************************************************************)
DotClauseE(E, C, edges) ==
    IF ~(edges \subseteq C) THEN "dot-edge-not-a-dependency"
    ELSE IF TRc(E, C) \ edges # {} THEN "dot-needed-edge-missing"
    ELSE IF edges \ TRc(E, C) # {} THEN "dot-redundant-edge-drawn"
    ELSE "OK"
DotClause(S, edges) == DotClauseE(DepEdges(S), TC(DepEdges(S)), edges)
=============================================================================
