CONSTANTS
  PoolSel = "mini"
  ArgSel = "core"
  MaxLen = 1
  KeyMode = "ideal"
  StoreMode = "store"
  HitMode = "ne"
  Random = FALSE
  FbMode = "faithful"
  ShareSel = "parity"
  RbMode = "faithful"
INIT Init
NEXT Next
INVARIANT Transparent
CHECK_DEADLOCK FALSE
