------------------------------ MODULE C04_UCls ------------------------------
(***************************************************************************)
(* User-defined node classes inside the trees of the traversal half of     *)
(* C04: the place where the two halves of the property meet.  A node of    *)
(* kind UNode is an instance of a user class that no stock traversal can   *)
(* know.  What a stock traversal (plus the handlers a user adds to it in a  *)
(* subclass) has to do with it is the dispatch rule of C04_Dispatch:       *)
(*   the handler named by the node's class if the mapper implements it,    *)
(*   else the handler of the nearest ancestor class the mapper implements, *)
(*   else it is a node type the traversal does not handle - and that has   *)
(*   to be reported by raising, never silently skipped.                    *)
(*                                                                         *)
(* M-layer fact used here (from the documentation of the class hierarchy): *)
(* Expression, AlgebraicLeaf and Leaf are abstract.  "AlgebraicLeaf: an    *)
(* expression that serves as a leaf for arithmetic evaluation; this may    *)
(* end up having child nodes still" - so a generic handler for them cannot *)
(* reach every child, and no stock traversal implements one: the handler   *)
(* names map_algebraic_leaf / map_leaf count as implemented only when the  *)
(* user's subclass supplies them (the base class's map_algebraic_leaf is   *)
(* the stub that raises NotImplementedError).  Hence for a user class      *)
(* rooted at one of the abstract bases the set of implemented handlers on  *)
(* its resolution order is exactly the set the user supplied.              *)
(***************************************************************************)
EXTENDS C04_Trees
D == INSTANCE C04_Dispatch

\* a user class: [base, chain (classes as in C04_Dispatch, the object is an instance of the
\* last one), ar: number of expression-valued fields (declared by the first class)]
UC(base, chain, ar) == [base |-> base, chain |-> chain, ar |-> ar]
Deco(nm)  == D!Cls(nm, TRUE, "")
Plain(nm) == D!Cls(nm, FALSE, "")
N_FieldAccess   == << "F","i","e","l","d","A","c","c","e","s","s" >>
N_StridedAccess == << "S","t","r","i","d","e","d","A","c","c","e","s","s" >>
N_Mark          == << "M","a","r","k" >>
N_Placeholder   == << "P","l","a","c","e","h","o","l","d","e","r" >>
N_TypedPh       == << "T","y","p","e","d","P","l","a","c","e","h","o","l","d","e","r" >>
N_NormOf        == << "N","o","r","m","O","f" >>
N_WNorm         == << "W","e","i","g","h","t","e","d","N","o","r","m" >>
N_Legacy        == << "L","e","g","a","c","y","A","c","c","e","s","s" >>
N_Tagged        == << "T","a","g","g","e","d" >>
N_Boxed         == << "B","o","x","e","d" >>

UClasses == <<
  UC("AlgebraicLeaf", << Deco(N_FieldAccess) >>, 2),                          \* 1
  UC("AlgebraicLeaf", << Deco(N_Mark) >>, 0),                                 \* 2
  UC("Leaf",          << Deco(N_Placeholder) >>, 0),                          \* 3
  UC("Leaf",          << Deco(N_Placeholder), Deco(N_TypedPh) >>, 0),         \* 4
  UC("Expression",    << Deco(N_NormOf) >>, 1),                               \* 5
  UC("Expression",    << Deco(N_NormOf), Deco(N_WNorm) >>, 1),                \* 6
  UC("AlgebraicLeaf", << Deco(N_FieldAccess), Deco(N_StridedAccess) >>, 2),   \* 7
  \* an undecorated subclass inherits the handler name of its parent
  UC("AlgebraicLeaf", << Deco(N_FieldAccess), Plain(N_Legacy) >>, 2),         \* 8
  \* a class that sets its handler name itself
  UC("Expression",    << D!Cls(N_Tagged, TRUE, "map_custom_tagged") >>, 1),   \* 9
  UC("Leaf",          << Deco(N_Boxed) >>, 1)                                 \* 10
>>
NU == Len(UClasses)

ULineage(u) == D!BuiltinLineage(UClasses[u].base) \o UClasses[u].chain
\* the handler names along the resolution order of class u (own class first)
UNames(u) == D!MRONames(ULineage(u))
\* the handlers a user may add to a stock traversal for class u: any handler name on the
\* resolution order (the generic map_algebraic_leaf / map_leaf included)
UUniverse(u) == { UNames(u)[k] : k \in 1..Len(UNames(u)) } \ {""}
\* which handler runs for an instance of class u on a stock traversal whose user subclass adds
\* the handlers in impl: "unsupported" = a node type the traversal does not handle
UTarget(u, impl) == D!Dispatch(ULineage(u), impl)
UTargetImpl(u, impl) == D!DispatchImpl(ULineage(u), impl)     \* transcription of Mapper.__call__
UBase(u) == UClasses[u].base

\* for the driver: the table as JSON-able records
UClassesJson ==
    [u \in 1..NU |->
       [base |-> UClasses[u].base, ar |-> UClasses[u].ar,
        chain |-> [i \in 1..Len(UClasses[u].chain) |->
                     [name |-> D!Join(UClasses[u].chain[i].name), deco |-> UClasses[u].chain[i].deco,
                      own |-> UClasses[u].chain[i].own]]]]
=============================================================================
