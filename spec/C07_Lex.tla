------------------------------- MODULE C07_Lex -------------------------------
(***************************************************************************)
(* Lexical layer of C07: the TEXT a token string is written as.  The       *)
(* token-level models (C07_Parser, C07_PyGrammar) work on token sequences; *)
(* this module decides where white space may be left out without changing  *)
(* the token sequence under the lexical grammar shared with Python         *)
(* (maximal munch; names are [A-Za-z_][A-Za-z0-9_]*; a keyword is a whole   *)
(* word).  Each generated token string is handed to the real parser twice:  *)
(* with a blank between any two tokens, and "tight" - every blank removed   *)
(* that the lexical grammar does not need.                                  *)
(***************************************************************************)
EXTENDS C07_Parser

WordToks == {"and", "or", "not", "if", "else", "True", "False"}
IsWord(t) == t \in Idents \/ t \in WordToks \/ IsIntTok(t) \/ IsFloatTok(t)
Brackets == {"(", ")", "[", "]", ","}
\* two adjacent tokens need a blank between them iff writing them together would lex differently
NeedsBlank(t1, t2) ==
    \/ IsWord(t1) /\ IsWord(t2)                       \* two words would fuse into one
    \/ (IsIntTok(t1) \/ IsFloatTok(t1)) /\ t2 = "."   \* "2." is a float literal
    \/ t1 = "." /\ (IsIntTok(t2) \/ IsFloatTok(t2))
    \/ ~IsWord(t1) /\ ~IsWord(t2) /\ t1 \notin Brackets /\ t2 \notin Brackets
                                                      \* operator characters would fuse ("*" "*")
RECURSIVE TextFrom(_, _, _)
TextFrom(toks, i, tight) ==
    IF i > Len(toks) THEN ""
    ELSE IF i = Len(toks) THEN toks[i]
    ELSE toks[i] \o (IF tight /\ ~NeedsBlank(toks[i], toks[i + 1]) THEN "" ELSE " ")
                 \o TextFrom(toks, i + 1, tight)
Text(toks, tight) == TextFrom(toks, 1, tight)
=============================================================================
