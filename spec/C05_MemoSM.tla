------------------------------ MODULE C05_MemoSM ------------------------------
(***************************************************************************)
(* The C05_Memo machine as TLA+ actions over one variable.  C05_Judge      *)
(* steps these actions along the events recorded from the real mappers,    *)
(* one TLC step per event.  (C05_MemoAbs is the unbounded abstract version *)
(* with its TLAPS proof.)                                                  *)
(***************************************************************************)
EXTENDS C05_MemoImpl
VARIABLE memo
HandlerInvoked(k)  == InvokeGuard(memo, k) /\ memo' = InvokePost(memo, k)
HandlerDone(k, ok) == DoneGuard(memo, k) /\ memo' = DonePost(memo, k, ok)
Return(k, r, f)    == ReturnGuard(memo, k, r, f) /\ memo' = ReturnPost(memo, k, r)
ReturnWalk(k, F)   == ReturnWalkGuard(memo, k, F) /\ memo' = ReturnPost(memo, k, NoneR)
=============================================================================
