------------------------------ MODULE C05_MemoSM ------------------------------
(***************************************************************************)
(* The C05_Memo machine as TLA+ actions over one variable.  C05_Judge      *)
(* steps these actions along the events recorded from the real mappers;    *)
(* C05_MemoAbs model checks / proves the abstract version.                 *)
(***************************************************************************)
EXTENDS C05_MemoImpl
VARIABLE memo
HandlerInvoked(k)  == InvokeGuard(memo, k) /\ memo' = InvokePost(memo, k)
HandlerDone(k, ok) == DoneGuard(memo, k) /\ memo' = DonePost(memo, k, ok)
Return(k, r, f)    == ReturnGuard(memo, k, r, f) /\ memo' = ReturnPost(memo, k, r)
ReturnWalk(k, F)   == ReturnWalkGuard(memo, k, F) /\ memo' = ReturnPost(memo, k, NoneR)
=============================================================================
