#!/usr/bin/env python3
"""Confirm a seeded change (patch.diff + demo.py + meta.json) and run checks against it.

  tools_seed.py <dir-with-patch> <seed-id> <Cxx> [more checks ...]

Works on a scratch copy of /repo (outside /repo and /verif, removed afterwards) selected
through PYMBOLIC_SRC, so that /repo itself is never touched while other runs use it.
Copies the confirmed change to /verif/seeded/<seed-id>/ and records what was run."""
import json
import os
import shutil
import subprocess
import sys
import time

VERIF = os.path.dirname(os.path.abspath(__file__))


def sh(cmd, **kw):
    return subprocess.run(cmd, shell=True, capture_output=True, text=True, **kw)


def main():
    src, sid, checks = os.path.abspath(sys.argv[1]), sys.argv[2], sys.argv[3:]
    scratch = f"/tmp/seedtest_{sid}_{os.getpid()}"
    shutil.rmtree(scratch, ignore_errors=True)
    sh(f"git -C /repo worktree prune; git -C /repo worktree add -q --detach {scratch} HEAD")
    meta = json.load(open(os.path.join(src, "meta.json")))
    ran = []
    try:
        env = dict(os.environ, PYTHONPATH=scratch)
        # demo on the clean copy
        r0 = sh(f"/venv/bin/python {src}/demo.py", env=env, cwd=scratch)
        ran.append(f"demo on clean copy: exit {r0.returncode}")
        a = sh(f"git -C {scratch} apply {os.path.abspath(src)}/patch.diff")
        if a.returncode != 0:
            print("PATCH DOES NOT APPLY", a.stderr)
            return 3
        t = sh("/venv/bin/python -m pytest -q -p no:cacheprovider test 2>&1 | tail -1", env=env, cwd=scratch)
        ran.append(f"repository tests with the change: {t.stdout.strip()}")
        r1 = sh(f"/venv/bin/python {src}/demo.py", env=env, cwd=scratch)
        ran.append(f"demo with the change: exit {r1.returncode}")
        confirmed = r0.returncode == 0 and r1.returncode != 0 and "41 passed" in t.stdout
        print(f"{sid}: confirmed={confirmed} | " + " | ".join(ran))
        results = {}
        for c in checks:
            t0 = time.time()
            r = sh(f"./check {c} --tier quick", env=dict(os.environ, PYMBOLIC_SRC=scratch), cwd=VERIF)
            viol = [l for l in r.stdout.splitlines() if l.startswith("VIOLATION")]
            results[c] = {"exit": r.returncode, "violation_line": viol[:1],
                          "wall_s": round(time.time() - t0, 1)}
            print(f"   check {c}: exit {r.returncode} {viol[:1]} ({time.time() - t0:.0f}s)")
            if r.returncode == 2:
                print(r.stderr[-1500:])
        if confirmed:
            dst = os.path.join(VERIF, "seeded", sid)
            os.makedirs(dst, exist_ok=True)
            if os.path.abspath(src) != os.path.abspath(dst):     # re-check of a stored seed
                shutil.copy(os.path.join(src, "patch.diff"), dst)
                shutil.copy(os.path.join(src, "demo.py"), dst)
            meta_out = {"property": meta.get("property"), "summary": meta.get("summary"),
                        "needs": meta.get("needs"), "files": meta.get("files"),
                        "base_commit": sh("git -C /repo rev-parse --short HEAD").stdout.strip(),
                        "confirmed": ran, "checks_run": results,
                        "detected": any(v["exit"] == 1 for v in results.values())}
            json.dump(meta_out, open(os.path.join(dst, "meta.json"), "w"), indent=1)
        return 0
    finally:
        sh(f"git -C /repo worktree remove --force {scratch}")
        shutil.rmtree(scratch, ignore_errors=True)


if __name__ == "__main__":
    sys.exit(main())
