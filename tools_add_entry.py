#!/usr/bin/env python3
"""tools_add_entry.py Cxx : take the MANIFEST text a builder wrote into notes/Cxx.md
(`technique`, `level_note`, `level_claimed.text`) into manifest_entries.json."""
import json
import re
import sys

pid = sys.argv[1]
txt = open(f"/verif/notes/{pid}.md").read()


def field(name):
    m = re.search(r"`" + re.escape(name) + r"`\s*:?\s*", txt)
    if not m:
        return None
    rest = txt[m.end():]
    q = rest.find('"')
    if q < 0 or q > 40:
        # unquoted: take until blank line / next bullet
        end = re.search(r"\n\s*\n|\n\s*[-*]\s+`", rest)
        return " ".join(rest[:end.start() if end else 400].split())
    rest = rest[q + 1:]
    end = re.search(r'"\s*(\n\s*[-*]\s|\n\s*\n|\n#|\Z|\n\|)', rest)
    body = rest[:end.start()] if end else rest[:1500]
    return " ".join(body.split())


e = json.load(open("/verif/manifest_entries.json"))
ent = {"text": field("level_claimed.text"), "note": field("level_note"), "technique": field("technique")}
missing = [k for k, v in ent.items() if not v]
print(json.dumps(ent, indent=1)[:1500])
if missing:
    print("MISSING", missing)
    sys.exit(1)
e[pid] = ent
json.dump(e, open("/verif/manifest_entries.json", "w"), indent=1)
