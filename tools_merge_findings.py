#!/usr/bin/env python3
"""Merge known_findings.d/*.json (written by the per-property builders) into the one committed
known-findings file /verif/known_findings.json, ordered by property and id.  The .d files are
removed; harness/kit.py reads both places, so running this is optional and idempotent."""
import glob
import json
import os

ROOT = os.path.dirname(os.path.abspath(__file__))
main = json.load(open(os.path.join(ROOT, "known_findings.json")))
seen = {(f["property"], f["id"]) for f in main["findings"]}
for p in sorted(glob.glob(os.path.join(ROOT, "known_findings.d", "*.json"))):
    for f in json.load(open(p))["findings"]:
        if (f["property"], f["id"]) not in seen:
            main["findings"].append(f)
            seen.add((f["property"], f["id"]))
    os.remove(p)
main["findings"].sort(key=lambda f: (f["property"], f.get("status") != "open", f["id"]))
json.dump(main, open(os.path.join(ROOT, "known_findings.json"), "w"), indent=1)
print(len(main["findings"]), "entries;",
      sum(1 for f in main["findings"] if f.get("status") == "open"), "open,",
      sum(1 for f in main["findings"] if f.get("status") == "fixed"), "fixed")
